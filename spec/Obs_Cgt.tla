------------------------------ MODULE Obs_Cgt ------------------------------
(***************************************************************************)
(* Observation pass: TLC as the judge of what the implementation did.      *)
(*                                                                         *)
(* The conformance harness runs the real matcher on a ledger enumerated by *)
(* MC_Cgt and records, through the `verif` hooks, how the implementation   *)
(* spread every capital return / accumulation over acquisition days (the   *)
(* part of the behaviour the specification deliberately leaves open), the  *)
(* legs it reported and the closing pools.  Each observation is one        *)
(* initial state here: `dist` is bound to the OBSERVED apportionment, the   *)
(* specification's own actions are run on it with every invariant on, and  *)
(* at the end the specification's legs and pools must equal the observed   *)
(* ones exactly (rationals).  One VERDICT line is printed per observation  *)
(* instead of stopping at the first failure, so that all deviations of a   *)
(* run can be classified.                                                  *)
(***************************************************************************)
EXTENDS Cgt, CgtConst, TLC, Json, IOUtils

VARIABLE idx

Recs == ndJsonDeserialize(IOEnv.OBS)

\* JSON arrays arrive as 1-based tuples, so <<n, d>> pairs are Rat values as they are.
CellOf(c) == [bq |-> c[1], bp |-> c[2], bf |-> c[3], sq |-> c[4], sp |-> c[5], sf |-> c[6],
              split |-> c[7], ac |-> c[8], cr |-> c[9], crf |-> c[10]]
SecIdx(s) == CHOOSE i \in 1..Len(SecSeq) : SecSeq[i] = s
LedgerOf(r) == [s \in Secs |-> [d \in Days |-> CellOf(r.ledger[SecIdx(s)][d])]]
DistOf(r) == [s \in Secs |-> [e \in Days |-> [a \in Days |-> r.dist[SecIdx(s)][e][a]]]]

ObsInit ==
  \E i \in 1..Len(Recs) :
    /\ idx = i
    /\ InitWith(LedgerOf(Recs[i]), Recs[i].timing, DistOf(Recs[i]), "start")

Start ==
  /\ pc = "start"
  /\ pc' = EnterPc(1, 1)
  /\ UNCHANGED <<L, timing, dist, day, si, pool, claimed, hold, rem, legs, err>>

ObsNext == (Start \/ Next) /\ UNCHANGED idx
ObsSpec == ObsInit /\ [][ObsNext]_<<vars, idx>>

\* observed legs: <<sec, day, rule, acqday, qty, cost>>, aggregated by the harness per
\* (disposal, rule, acquisition day) and sorted like the specification's
SpecLegs == [i \in 1..Len(legs) |-> <<legs[i].s, legs[i].d, legs[i].rule, legs[i].a, legs[i].q, legs[i].cost>>]
LegSet(ls) == {ls[i] : i \in 1..Len(ls)}
SpecPools == [i \in 1..Len(SecSeq) |-> <<pool[SecSeq[i]].q, pool[SecSeq[i]].c>>]

Verdict ==
  LET r == Recs[idx] IN
  \* an uncovered ledger fails whatever the pre-pass did with its cost events
  IF pc = "failed" THEN (IF r.status \in {"error", "refused"} THEN "ok" ELSE "C05:accepted_uncovered")
  \* one-directional (C11): a capital return may be refused under s122 even where the pool could absorb it
  ELSE IF r.status = "refused" THEN
         (IF \E s \in Secs, e \in Days : ~IsZero(C(s, e).cr) THEN "ok" ELSE "C05:refused_without_capital_return")
  ELSE IF r.status # "ok" THEN "C05:refused_covered"
  ELSE IF ~ValidDist THEN "C11:apportionment_not_admissible"
  ELSE IF ~NoNegativeCost THEN "C11:negative_cost_reported"
  ELSE IF LegSet(SpecLegs) # LegSet(r.legs) THEN
         (IF {<<g[1], g[2], g[3], g[4], g[5]>> : g \in LegSet(SpecLegs)} # {<<g[1], g[2], g[3], g[4], g[5]>> : g \in LegSet(r.legs)}
          THEN "C01:legs_differ" ELSE "C03:leg_costs_differ")
  ELSE IF \E i \in 1..Len(SecSeq) : SpecPools[i][1] # r.pool[i][1] THEN "C02:closing_holding_differs"
  ELSE IF \E i \in 1..Len(SecSeq) : SpecPools[i][2] # r.pool[i][2] THEN "C03:closing_cost_differs"
  ELSE "ok"

Judge == (pc \in {"done", "failed"}) => PrintT(<<"VERDICT", Recs[idx].case, Verdict>>)
=============================================================================
