------------------------------ MODULE Validator ------------------------------
(***************************************************************************)
(* The standalone validator's rule (C15): a transaction is in error exactly *)
(* when some quantity is zero or negative, some price, fee or total value   *)
(* is negative, or a split ratio is not positive.  Signs are the only thing *)
(* that matters, so numeric fields are sign classes; TAX amounts are not    *)
(* constrained by the rule.                                                 *)
(***************************************************************************)
EXTENDS Integers, Sequences, FiniteSets

Signs == {"neg", "zero", "pos"}
Kinds == {"BUY", "SELL", "DIVIDEND", "ACCUMULATION", "CAPRETURN", "SPLIT", "UNSPLIT"}
\* which fields a kind has: q = quantity, m = price / total value, x = fees or tax, r = ratio
HasQty(k) == k \in {"BUY", "SELL", "ACCUMULATION", "CAPRETURN"}
HasMoney(k) == k \notin {"SPLIT", "UNSPLIT"}
ExtraIsFee(k) == k \in {"BUY", "SELL", "CAPRETURN"}
HasRatio(k) == k \in {"SPLIT", "UNSPLIT"}

HasError(t) ==
  \/ HasQty(t.kind) /\ t.q # "pos"
  \/ HasMoney(t.kind) /\ t.m = "neg"
  \/ ExtraIsFee(t.kind) /\ t.x = "neg"
  \/ HasRatio(t.kind) /\ t.r # "pos"
\* a list is valid iff none of its transactions is in error; errors name the offending positions
ErrorPositions(ts) == {i \in 1..Len(ts) : HasError(ts[i])}
=============================================================================
