-------------------------------- MODULE Lines --------------------------------
(***************************************************************************)
(* LINE-LEVEL, implementation-shaped model of crates/cgt-core/src/matcher  *)
(* for SEVERAL securities: the input is the list of transaction LINES in   *)
(* file order, and the state is what `Matcher::process` keeps:             *)
(*                                                                         *)
(*   preprocess            LSort   stable sort by (date, reorganisations   *)
(*                                 last)                                   *)
(*                         LMerge  adjacent same-day same-security BUY/BUY *)
(*                                 and SELL/SELL lines are merged          *)
(*                         LFold   every further BUY of a security on a    *)
(*                                 day is folded into the day's first BUY  *)
(*   compute_cost_offsets  POffDay one action per day group of the FLAT    *)
(*                                 list: events, buys, sells (same day     *)
(*                                 then FIFO), reorganisations; lots carry *)
(*                                 the index of their BUY line             *)
(*   process               MBuys / MSells / MPools / MSplits per day group *)
(*                                 with the maps the code shares between   *)
(*                                 securities: future_consumption keyed by *)
(*                                 LINE INDEX, the same-day reservation    *)
(*                                 memo keyed by (date, security), pools   *)
(*                                 and `held` keyed by security            *)
(*                                                                         *)
(* Matcher.tla models one security on day cells; this module is what the   *)
(* code does with the lines of a whole file, so that line order, the flat  *)
(* index space and the shared maps are part of the specification.          *)
(* Deliberate deviation kept as the code has it: non-adjacent same-day     *)
(* SELL lines of one security stay separate sales (finding D14).           *)
(* MC_Lines checks that this machine refines Cgt.tla through the           *)
(* abstraction "lines -> day cells" for EVERY order of the lines.          *)
(***************************************************************************)
EXTENDS Integers, Sequences, FiniteSets, Rat

CONSTANTS DayNo,      \* day numbers of the day slots
          LSecs,      \* sequence of securities
          FoldSellLines   \* FALSE: the code as it is (finding D14: only ADJACENT same-day SELL lines are merged);
                          \* TRUE: the specified repair -- every further SELL of a security on a day is folded into the
                          \* day's first SELL, as purchases are (s105(1)(a): one disposal per day and class)

VARIABLES
  inp,      \* the lines as given (file order)
  txs,      \* the list being preprocessed / the preprocessed list
  lpc,      \* phase
  di,       \* index of the first line of the current day group
  offs,     \* cost offset per line index (result of the pre-pass)
  pl,       \* pre-pass ledgers: [security -> Seq(lot)]   lot = [idx, d, amt, consumed, base, off]
  pdist,    \* [security -> [event day -> [acquisition day -> Rat]]]: what each day's events put on each lot
  ml,       \* main-pass ledgers: [security -> Seq(lot)]  lot = [idx, d, amt, consumed, reserved, inpool, base, off]
  fut,      \* future_consumption: [line index -> Rat]
  sdr,      \* same-day reservation memo: set of <<d, s, quantity>>
  lpool,    \* [security -> [q, c]]
  lheld,    \* [security -> Rat]
  llegs,    \* legs in the order they are produced
  lerr      \* <<>> or <<security, day>>
lvars == <<inp, txs, lpc, di, offs, pl, pdist, ml, fut, sdr, lpool, lheld, llegs, lerr>>

SecSet == {LSecs[i] : i \in 1..Len(LSecs)}
IsTrade(t) == t.op \in {"BUY", "SELL"}
IsReorg(t) == t.op = "SPLIT"
\* a line: [d, s, op, q, p, f]   BUY/SELL: quantity, price, fees;  SPLIT: q = factor (UNSPLIT r is factor 1/r);
\* CAPRETURN: p = total, f = fees;  ACC: p = total;  DIV: inert

LInit(lines) ==
  /\ inp = lines /\ txs = lines /\ lpc = "sort" /\ di = 1
  /\ offs = <<>> /\ pl = [s \in SecSet |-> <<>>]
  /\ pdist = [s \in SecSet |-> [e \in 1..Len(DayNo) |-> [a \in 1..Len(DayNo) |-> Zero]]] /\ ml = [s \in SecSet |-> <<>>]
  /\ fut = <<>> /\ sdr = {} /\ lpool = [s \in SecSet |-> [q |-> Zero, c |-> Zero]]
  /\ lheld = [s \in SecSet |-> Zero] /\ llegs = <<>> /\ lerr = <<>>

-----------------------------------------------------------------------------
(* preprocess *)
Before(a, b) == a.d < b.d \/ (a.d = b.d /\ ~IsReorg(a) /\ IsReorg(b))
RECURSIVE InsertStable(_, _)
InsertStable(sorted, t) ==
  IF sorted = <<>> THEN <<t>>
  ELSE IF Before(t, Head(sorted)) THEN <<t>> \o sorted
  ELSE <<Head(sorted)>> \o InsertStable(Tail(sorted), t)
RECURSIVE SortStable(_, _)
SortStable(acc, rest) == IF rest = <<>> THEN acc ELSE SortStable(InsertStable(acc, Head(rest)), Tail(rest))

MergeTwo(c, n) ==
  LET amt == Add(c.q, n.q)
      tot == Add(Mul(c.q, c.p), Mul(n.q, n.p))
  IN [c EXCEPT !.q = amt, !.p = IF IsZero(amt) THEN c.p ELSE Div(tot, amt), !.f = Add(c.f, n.f)]
RECURSIVE MergeAdj(_, _, _)
MergeAdj(out, cur, rest) ==
  IF rest = <<>> THEN Append(out, cur)
  ELSE LET n == Head(rest) IN
       IF n.d = cur.d /\ n.s = cur.s /\ n.op = cur.op /\ IsTrade(n)
       THEN MergeAdj(out, MergeTwo(cur, n), Tail(rest))
       ELSE MergeAdj(Append(out, cur), n, Tail(rest))

MinOf(S) == CHOOSE x \in S : \A y \in S : x <= y
RECURSIVE FoldOps(_, _, _, _)
FoldOps(out, ds, rest, ops) ==
  IF rest = <<>> THEN out
  ELSE LET n == Head(rest)
           ds2 == IF out # <<>> /\ out[Len(out)].d # n.d THEN Len(out) + 1 ELSE ds
           cands == {j \in ds2..Len(out) : out[j].s = n.s /\ out[j].op = n.op}
       IN IF n.op \in ops /\ cands # {}
          THEN FoldOps([out EXCEPT ![MinOf(cands)] = MergeTwo(@, n)], ds2, Tail(rest), ops)
          ELSE FoldOps(Append(out, n), ds2, Tail(rest), ops)
FoldBuys(out, ds, rest) == FoldOps(out, ds, rest, IF FoldSellLines THEN {"BUY", "SELL"} ELSE {"BUY"})

LSort == /\ lpc = "sort" /\ txs' = SortStable(<<>>, txs) /\ lpc' = "merge"
         /\ UNCHANGED <<inp, di, offs, pl, pdist, ml, fut, sdr, lpool, lheld, llegs, lerr>>
LMerge == /\ lpc = "merge" /\ lpc' = "fold"
          /\ txs' = IF txs = <<>> THEN <<>> ELSE MergeAdj(<<>>, Head(txs), Tail(txs))
          /\ UNCHANGED <<inp, di, offs, pl, pdist, ml, fut, sdr, lpool, lheld, llegs, lerr>>
LFold == /\ lpc = "fold"
         /\ txs' = FoldBuys(<<>>, 1, txs)
         /\ offs' = [i \in 1..Len(txs') |-> Zero] /\ fut' = [i \in 1..Len(txs') |-> Zero]
         /\ lpc' = (IF txs' = <<>> THEN "done" ELSE "p_day") /\ di' = 1
         /\ UNCHANGED <<inp, pl, pdist, ml, sdr, lpool, lheld, llegs, lerr>>

-----------------------------------------------------------------------------
(* day groups of the flat list *)
T(i) == txs[i]
RECURSIVE DayEndFrom(_, _)
DayEndFrom(i, d) == IF i <= Len(txs) /\ txs[i].d = d THEN DayEndFrom(i + 1, d) ELSE i
DayEnd == DayEndFrom(di, txs[di].d)          \* one past the last line of the group that starts at di
Today == txs[di].d

-----------------------------------------------------------------------------
(* pre-pass: compute_cost_offsets *)
PHeldL(l) == Sub(l.amt, l.consumed)
PTotal(ls) == SumSeq([j \in 1..Len(ls) |-> PHeldL(ls[j])])
PAdjL(l) == Add(l.base, l.off)
PBasis(ls) == SumSeq([j \in 1..Len(ls) |-> IF IsPos(PHeldL(ls[j])) THEN Mul(Div(PAdjL(ls[j]), ls[j].amt), PHeldL(ls[j])) ELSE Zero])
PCanAbsorb(ls, amount) ==
  IsZero(PTotal(ls)) \/ \A j \in 1..Len(ls) : ~IsPos(PHeldL(ls[j])) \/ Le(Mul(amount, Div(PHeldL(ls[j]), PTotal(ls))), PAdjL(ls[j]))
PApply(ls, adj) ==
  IF IsZero(PTotal(ls)) THEN ls
  ELSE [j \in 1..Len(ls) |-> IF IsPos(PHeldL(ls[j])) THEN [ls[j] EXCEPT !.off = Add(@, Mul(adj, Div(PHeldL(ls[j]), PTotal(ls))))] ELSE ls[j]]

\* events of the day in list order; returns [l |-> ledgers, bad |-> <<>> or <<s>>]
RECURSIVE PEventsFrom(_, _, _)
PEventsFrom(st, i, e) ==
  IF i >= e \/ st.bad # <<>> THEN st
  ELSE LET t == T(i)
           ls == st.l[t.s]
       IN IF t.op = "CAPRETURN" /\ ls # <<>>
          THEN LET net == Sub(t.p, t.f) IN
               IF Gt(net, PBasis(ls)) \/ ~PCanAbsorb(ls, net)
               THEN [st EXCEPT !.bad = <<t.s>>]
               ELSE PEventsFrom([st EXCEPT !.l[t.s] = PApply(ls, Neg(net))], i + 1, e)
          ELSE IF t.op = "ACC" /\ ls # <<>>
          THEN PEventsFrom([st EXCEPT !.l[t.s] = PApply(ls, t.p)], i + 1, e)
          ELSE PEventsFrom(st, i + 1, e)

RECURSIVE PBuysFrom(_, _, _)
PBuysFrom(l, i, e) ==
  IF i >= e THEN l
  ELSE LET t == T(i) IN
       IF t.op = "BUY"
       THEN PBuysFrom([l EXCEPT ![t.s] = Append(@, [idx |-> i, d |-> t.d, amt |-> t.q, consumed |-> Zero,
                                                     base |-> Add(Mul(t.q, t.p), t.f), off |-> Zero])], i + 1, e)
       ELSE PBuysFrom(l, i + 1, e)

\* consume `need` from the lots dated d (proportionally over several; after LFold there is exactly one)
AvailOn(ls, d) == SumSeq([j \in 1..Len(ls) |-> IF ls[j].d = d THEN PHeldL(ls[j]) ELSE Zero])
RECURSIVE ConsumeWhere(_, _, _, _, _)
ConsumeWhere(ls, j, need, d, same) ==      \* same = TRUE: lots dated d; FALSE: lots dated before d (FIFO)
  IF j > Len(ls) \/ ~IsPos(need) THEN ls
  ELSE LET ok == IF same THEN ls[j].d = d ELSE ls[j].d < d
           av == PHeldL(ls[j])
           take == Min(need, av)
       IN IF ok /\ IsPos(av)
          THEN ConsumeWhere([ls EXCEPT ![j].consumed = Add(@, take)], j + 1, Sub(need, take), d, same)
          ELSE ConsumeWhere(ls, j + 1, need, d, same)
RECURSIVE PSellsFrom(_, _, _)
PSellsFrom(l, i, e) ==
  IF i >= e THEN l
  ELSE LET t == T(i)
           ls == l[t.s]
       IN IF t.op = "SELL" /\ ls # <<>>
          THEN LET av == AvailOn(ls, t.d)
                   m == IF IsPos(av) THEN Min(t.q, av) ELSE Zero
                   l1 == IF IsPos(m) THEN ConsumeWhere(ls, 1, m, t.d, TRUE) ELSE ls
                   l2 == ConsumeWhere(l1, 1, Sub(t.q, m), t.d, FALSE)
               IN PSellsFrom([l EXCEPT ![t.s] = l2], i + 1, e)
          ELSE PSellsFrom(l, i + 1, e)
RECURSIVE PSplitsFrom(_, _, _)
PSplitsFrom(l, i, e) ==
  IF i >= e THEN l
  ELSE LET t == T(i) IN
       IF t.op = "SPLIT"
       THEN PSplitsFrom([l EXCEPT ![t.s] = [j \in 1..Len(@) |-> [@[j] EXCEPT !.amt = Mul(@, t.q), !.consumed = Mul(@, t.q)]]], i + 1, e)
       ELSE PSplitsFrom(l, i + 1, e)

RECURSIVE OffsOf(_, _, _)
OffsOf(o, ls, j) == IF j > Len(ls) THEN o ELSE OffsOf([o EXCEPT ![ls[j].idx] = ls[j].off], ls, j + 1)
RECURSIVE AllOffs(_, _, _)
AllOffs(o, l, k) == IF k > Len(LSecs) THEN o ELSE AllOffs(OffsOf(o, l[LSecs[k]], 1), l, k + 1)

POffDay ==
  /\ lpc = "p_day"
  /\ LET e == DayEnd
         ev == PEventsFrom([l |-> pl, bad |-> <<>>], di, e)
     IN IF ev.bad # <<>>
        THEN /\ lpc' = "refused" /\ lerr' = <<ev.bad[1], Today>> /\ UNCHANGED <<pl, pdist, di, offs>>
        ELSE LET l4 == PSplitsFrom(PSellsFrom(PBuysFrom(ev.l, di, e), di, e), di, e) IN
             /\ pl' = l4 /\ UNCHANGED lerr
             /\ pdist' = [s \in SecSet |-> [pdist[s] EXCEPT ![Today] = [a \in 1..Len(DayNo) |->
                    SumSeq([j \in 1..Len(pl[s]) |-> IF pl[s][j].d = a THEN Sub(ev.l[s][j].off, pl[s][j].off) ELSE Zero])]]]
             /\ IF e > Len(txs)
                THEN /\ offs' = AllOffs(offs, l4, 1) /\ di' = 1 /\ lpc' = "m_buys"
                ELSE /\ di' = e /\ UNCHANGED <<offs, lpc>>
  /\ UNCHANGED <<inp, txs, ml, fut, sdr, lpool, lheld, llegs>>

-----------------------------------------------------------------------------
(* main pass: process *)
MAvailL(l) == Sub(Sub(Sub(l.amt, l.consumed), l.reserved), l.inpool)
MAvailOn(ls, d) == SumSeq([j \in 1..Len(ls) |-> IF ls[j].d = d THEN MAvailL(ls[j]) ELSE Zero])
UnitL(l) == IF IsZero(l.amt) THEN Zero ELSE Div(Add(l.base, l.off), l.amt)

\* add the day's buys (list order); a reservation larger than the purchase is an error
RECURSIVE MBuysFrom(_, _, _)
MBuysFrom(st, i, e) ==
  IF i >= e \/ st.bad # <<>> THEN st
  ELSE LET t == T(i) IN
       IF t.op = "BUY"
       THEN IF Gt(fut[i], t.q) THEN [st EXCEPT !.bad = <<t.s>>]
            ELSE MBuysFrom([st EXCEPT !.l[t.s] = Append(@, [idx |-> i, d |-> t.d, amt |-> t.q, consumed |-> Zero, reserved |-> fut[i],
                                                              inpool |-> Zero, base |-> Add(Mul(t.q, t.p), t.f), off |-> offs[i]]),
                                      !.h[t.s] = Add(@, t.q)], i + 1, e)
       ELSE MBuysFrom(st, i + 1, e)
MBuys ==
  /\ lpc = "m_buys"
  /\ LET r == MBuysFrom([l |-> ml, h |-> lheld, bad |-> <<>>], di, DayEnd) IN
       IF r.bad # <<>> THEN /\ lpc' = "failed" /\ lerr' = <<r.bad[1], Today>> /\ UNCHANGED <<ml, lheld>>
       ELSE /\ ml' = r.l /\ lheld' = r.h /\ lpc' = "m_sells" /\ UNCHANGED lerr
  /\ UNCHANGED <<inp, txs, di, offs, pl, pdist, fut, sdr, lpool, llegs>>

LegOf(t, rule, a, q, cost) ==
  LET gross == Mul(q, t.p)
      net == Sub(gross, Mul(t.f, Div(q, t.q)))
  IN [s |-> t.s, d |-> t.d, rule |-> rule, a |-> a, q |-> q, cost |-> cost, gross |-> gross, net |-> net, gain |-> Sub(net, cost)]

\* consume m shares of the lots dated d (one lot after LFold); cost at that lot's adjusted unit cost
RECURSIVE MConsumeOn(_, _, _, _)
MConsumeOn(ls, j, need, d) ==
  IF j > Len(ls) \/ ~IsPos(need) THEN ls
  ELSE LET av == MAvailL(ls[j])
           take == Min(need, av)
       IN IF ls[j].d = d /\ IsPos(av) THEN MConsumeOn([ls EXCEPT ![j].consumed = Add(@, take)], j + 1, Sub(need, take), d)
          ELSE MConsumeOn(ls, j + 1, need, d)
AvgUnitOn(ls, d) ==
  LET tot == MAvailOn(ls, d)
      cst == SumSeq([j \in 1..Len(ls) |-> IF ls[j].d = d /\ IsPos(MAvailL(ls[j])) THEN Mul(MAvailL(ls[j]), UnitL(ls[j])) ELSE Zero])
  IN Div(cst, tot)

\* the day's total disposals of a security (what the same-day reservation memo stores)
SameDaySold(d, s) == SumSeq([j \in 1..Len(txs) |-> IF txs[j].d = d /\ txs[j].s = s /\ txs[j].op = "SELL" THEN txs[j].q ELSE Zero])
Memo(m, d, s) == IF \E x \in m : x[1] = d /\ x[2] = s THEN (CHOOSE x \in m : x[1] = d /\ x[2] = s)[3] ELSE SameDaySold(d, s)
AbsorbedEarlier(f, j) ==
  SumSeq([x \in 1..(j - 1) |-> IF txs[x].d = txs[j].d /\ txs[x].s = txs[j].s /\ txs[x].op = "BUY" THEN Max(Sub(txs[x].q, f[x]), Zero) ELSE Zero])

\* the 30-day look-ahead of one SELL line i: scans the flat list after it
\* st = [rem, legs, fut, sdr, cum]
RECURSIVE Scan(_, _, _)
Scan(st, i, j) ==
  IF j > Len(txs) \/ ~IsPos(st.rem) THEN st
  ELSE LET t == T(j)
           s == T(i)
           diff == DayNo[t.d] - DayNo[s.d]
       IN IF t.s # s.s THEN Scan(st, i, j + 1)
          ELSE IF diff = 0 THEN Scan(IF IsReorg(t) THEN [st EXCEPT !.cum = Mul(@, t.q)] ELSE st, i, j + 1)
          ELSE IF diff < 0 THEN Scan(st, i, j + 1)
          ELSE IF diff > 30 THEN st
          ELSE IF IsReorg(t) THEN Scan([st EXCEPT !.cum = Mul(@, t.q)], i, j + 1)
          ELSE IF t.op # "BUY" THEN Scan(st, i, j + 1)
          ELSE LET before == Sub(t.q, st.fut[j]) IN
               IF ~IsPos(before) THEN Scan(st, i, j + 1)
               ELSE LET sdd == Memo(st.sdr, t.d, t.s)
                        memo2 == st.sdr \cup {<<t.d, t.s, sdd>>}
                        left == Max(Sub(sdd, AbsorbedEarlier(st.fut, j)), Zero)
                        av == Sub(before, Min(before, left))
                        msell == Min(st.rem, Div(av, st.cum))
                        mbuy == Min(Mul(msell, st.cum), av)
                        cost == Mul(mbuy, Div(Add(Add(Mul(t.q, t.p), t.f), offs[j]), t.q))
                    IN IF ~IsPos(av) \/ ~IsPos(msell) THEN Scan([st EXCEPT !.sdr = memo2], i, j + 1)
                       ELSE Scan([st EXCEPT !.sdr = memo2, !.rem = Sub(@, msell), !.fut[j] = Add(@, mbuy),
                                            !.legs = Append(@, LegOf(s, "BedAndBreakfast", t.d, msell, cost))], i, j + 1)

\* one SELL line; g = [l, pool, h, fut, sdr, legs, bad]
SellOne(g, i) ==
  LET t == T(i)
      ls == g.l[t.s]
      ledgerHeld == MAvailOn(ls, t.d)
  IN IF Gt(t.q, Add(ledgerHeld, g.pool[t.s].q)) \/ Gt(t.q, g.h[t.s]) THEN [g EXCEPT !.bad = <<t.s>>]
     ELSE LET m1 == IF IsPos(ledgerHeld) THEN Min(t.q, ledgerHeld) ELSE Zero
              legs1 == IF IsPos(m1) THEN Append(g.legs, LegOf(t, "SameDay", t.d, m1, Mul(m1, AvgUnitOn(ls, t.d)))) ELSE g.legs
              ls1 == IF IsPos(m1) THEN MConsumeOn(ls, 1, m1, t.d) ELSE ls
              sc == Scan([rem |-> Sub(t.q, m1), legs |-> legs1, fut |-> g.fut, sdr |-> g.sdr, cum |-> One], i, i + 1)
              pq == g.pool[t.s]
              m3 == IF IsPos(sc.rem) /\ ~IsZero(pq.q) THEN Min(sc.rem, pq.q) ELSE Zero
              c3 == IF IsPos(m3) THEN Mul(m3, Div(pq.c, pq.q)) ELSE Zero
              legs3 == IF IsPos(m3) THEN Append(sc.legs, LegOf(t, "Section104", 0, m3, c3)) ELSE sc.legs
              left == Sub(sc.rem, m3)
          IN [l |-> [g.l EXCEPT ![t.s] = ls1],
              pool |-> [g.pool EXCEPT ![t.s] = [q |-> Sub(pq.q, m3), c |-> Sub(pq.c, c3)]],
              h |-> [g.h EXCEPT ![t.s] = Sub(@, t.q)],
              fut |-> sc.fut, sdr |-> sc.sdr, legs |-> legs3,
              bad |-> IF IsPos(left) THEN <<t.s>> ELSE <<>>]
RECURSIVE MSellsFrom(_, _, _)
MSellsFrom(g, i, e) ==
  IF i >= e \/ g.bad # <<>> THEN g
  ELSE IF T(i).op = "SELL" THEN MSellsFrom(SellOne(g, i), i + 1, e) ELSE MSellsFrom(g, i + 1, e)
MSells ==
  /\ lpc = "m_sells"
  /\ LET r == MSellsFrom([l |-> ml, pool |-> lpool, h |-> lheld, fut |-> fut, sdr |-> sdr, legs |-> llegs, bad |-> <<>>], di, DayEnd) IN
       IF r.bad # <<>> THEN /\ lpc' = "failed" /\ lerr' = <<r.bad[1], Today>> /\ UNCHANGED <<ml, lpool, lheld, fut, sdr, llegs>>
       ELSE /\ ml' = r.l /\ lpool' = r.pool /\ lheld' = r.h /\ fut' = r.fut /\ sdr' = r.sdr /\ llegs' = r.legs
            /\ lpc' = "m_pools" /\ UNCHANGED lerr
  /\ UNCHANGED <<inp, txs, di, offs, pl, pdist>>

\* what is left of the day's purchases goes to the pool (once per BUY line; one BUY line per security after LFold)
RECURSIVE MPoolsFrom(_, _, _)
MPoolsFrom(g, i, e) ==
  IF i >= e THEN g
  ELSE LET t == T(i) IN
       IF t.op = "BUY"
       THEN LET ls == g.l[t.s]
                r == MAvailOn(ls, t.d)
            IN IF IsPos(r)
               THEN MPoolsFrom([l |-> [g.l EXCEPT ![t.s] = [j \in 1..Len(ls) |-> IF ls[j].d = t.d /\ IsPos(MAvailL(ls[j]))
                                                                THEN [ls[j] EXCEPT !.inpool = Add(@, MAvailL(ls[j]))] ELSE ls[j]]],
                                pool |-> [g.pool EXCEPT ![t.s] = [q |-> Add(@.q, r), c |-> Add(@.c, Mul(r, AvgUnitOn(ls, t.d)))]]], i + 1, e)
               ELSE MPoolsFrom(g, i + 1, e)
       ELSE MPoolsFrom(g, i + 1, e)
MPools ==
  /\ lpc = "m_pools"
  /\ LET r == MPoolsFrom([l |-> ml, pool |-> lpool], di, DayEnd) IN ml' = r.l /\ lpool' = r.pool
  /\ lpc' = "m_splits"
  /\ UNCHANGED <<inp, txs, di, offs, pl, pdist, fut, sdr, lheld, llegs, lerr>>

RECURSIVE MSplitsFrom(_, _, _)
MSplitsFrom(g, i, e) ==
  IF i >= e THEN g
  ELSE LET t == T(i) IN
       IF t.op = "SPLIT"
       THEN MSplitsFrom([pool |-> [g.pool EXCEPT ![t.s].q = Mul(@, t.q)], h |-> [g.h EXCEPT ![t.s] = Mul(@, t.q)]], i + 1, e)
       ELSE MSplitsFrom(g, i + 1, e)
MSplits ==
  /\ lpc = "m_splits"
  /\ LET r == MSplitsFrom([pool |-> lpool, h |-> lheld], di, DayEnd) IN lpool' = r.pool /\ lheld' = r.h
  /\ IF DayEnd > Len(txs) THEN lpc' = "done" /\ UNCHANGED di ELSE di' = DayEnd /\ lpc' = "m_buys"
  /\ UNCHANGED <<inp, txs, offs, pl, pdist, ml, fut, sdr, llegs, lerr>>

LNext == LSort \/ LMerge \/ LFold \/ POffDay \/ MBuys \/ MSells \/ MPools \/ MSplits
LTerminated == lpc \in {"done", "failed", "refused"}

-----------------------------------------------------------------------------
(* invariants of the list and of the bookkeeping *)
Preprocessed == lpc \notin {"sort", "merge", "fold"}
\* after preprocess: dates ascend, reorganisations close their day, one BUY line per (day, security)
SortedByDay == Preprocessed => \A i \in 1..(Len(txs) - 1) : ~Before(txs[i + 1], txs[i])
OneBuyPerDay == Preprocessed => \A i, j \in 1..Len(txs) : (i < j /\ txs[i].op = "BUY" /\ txs[j].op = "BUY" /\ txs[i].d = txs[j].d) => txs[i].s # txs[j].s
\* preprocess neither loses nor invents shares, consideration or fees
QtyOf(seq, s, d, op) == SumSeq([j \in 1..Len(seq) |-> IF seq[j].s = s /\ seq[j].d = d /\ seq[j].op = op THEN seq[j].q ELSE Zero])
ValOf(seq, s, d, op) == SumSeq([j \in 1..Len(seq) |-> IF seq[j].s = s /\ seq[j].d = d /\ seq[j].op = op THEN Add(Mul(seq[j].q, seq[j].p), seq[j].f) ELSE Zero])
PreprocessConserves ==
  Preprocessed => \A s \in SecSet, d \in 1..Len(DayNo), op \in {"BUY", "SELL"} :
     QtyOf(txs, s, d, op) = QtyOf(inp, s, d, op) /\ ValOf(txs, s, d, op) = ValOf(inp, s, d, op)
\* a lot never gives out more than it holds; reservations are claims on BUY lines only
LotsFit == \A s \in SecSet : \A j \in 1..Len(ml[s]) : ~IsNeg(MAvailL(ml[s][j]))
FutOnBuys == Preprocessed => \A i \in 1..Len(fut) : IsZero(fut[i]) \/ (txs[i].op = "BUY" /\ Le(fut[i], txs[i].q))
LBookkeeping == SortedByDay /\ OneBuyPerDay /\ PreprocessConserves /\ LotsFit /\ FutOnBuys
=============================================================================
