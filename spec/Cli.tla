--------------------------------- MODULE Cli ---------------------------------
(***************************************************************************)
(* The command-line front-end as a step machine (C15, and the CLI side of  *)
(* C04 / C05 / C06): every command is a fixed pipeline of steps, each of    *)
(* which may fail; nothing is written to standard output or to the target  *)
(* file before the last step, so a failure anywhere leaves both untouched.  *)
(*                                                                         *)
(*   report : ReadFiles -> LoadRates -> Parse -> LoadConfig -> Calculate   *)
(*            -> Format -> (pdf, default path: CheckExists) -> Write        *)
(*   parse  : ReadFiles -> Parse -> Write                                   *)
(*   convert: ReadFiles -> Convert -> Write                                 *)
(***************************************************************************)
EXTENDS Integers, Sequences, FiniteSets

VARIABLES
  sc,       \* the scenario (record, fixed for a behaviour): cmd, format, output, fault, target
  step,     \* index of the next step in the pipeline, or 0 when finished
  exit,     \* "running" | "ok" | "fail"
  out,      \* what is on standard output: "empty" | "report" | "notice"
  target    \* state of the output file: "absent" | "old" | "new"
clivars == <<sc, step, exit, out, target>>

\* the default PDF path: <input>.pdf for one input file ("default"), report.pdf for several ("default2")
DefaultOutputs == {"default", "default2"}
Pipeline(s) ==
  CASE s.cmd = "report" -> <<"ReadFiles", "LoadRates", "Parse", "LoadConfig", "Calculate", "Format">>
                             \o (IF s.format = "pdf" /\ s.output \in DefaultOutputs THEN <<"CheckExists">> ELSE <<>>) \o <<"Write">>
    [] s.cmd = "parse" -> <<"ReadFiles", "Parse", "Write">>
    [] s.cmd = "convert" -> <<"ReadFiles", "Convert", "Write">>

\* the step at which each fault strikes
FaultStep(f) ==
  CASE f = "missing_input" -> "ReadFiles"
    [] f = "bad_fx_folder" -> "LoadRates"
    [] f = "parse_error" -> "Parse"
    [] f = "uncovered_sale" -> "Calculate"
    [] f = "missing_exemption" -> "Calculate"
    [] f = "missing_rate" -> "Calculate"          \* a currency HMRC lists, in a month no table covers
    [] f = "unlisted_currency" -> "Calculate"     \* a valid ISO 4217 code HMRC never lists (GIP, XAU): no month at all
    [] f = "bad_year" -> "Calculate"
    [] f = "default_pdf_exists" -> "CheckExists"
    [] f = "unwritable_output" -> "Write"
    [] f = "bad_export" -> "Convert"
    [] f = "rsu_without_awards" -> "Convert"
    [] OTHER -> "never"

CliInit(s) ==
  /\ sc = s /\ step = 1 /\ exit = "running" /\ out = "empty"
  /\ target = s.target

DoStep ==
  /\ exit = "running" /\ step <= Len(Pipeline(sc))
  /\ LET name == Pipeline(sc)[step] IN
     IF FaultStep(sc.fault) = name
     THEN /\ exit' = "fail" /\ step' = 0 /\ UNCHANGED <<out, target>>      \* nothing was written before
     ELSE IF name = "Write"
          THEN /\ exit' = "ok" /\ step' = 0
               /\ IF sc.output = "stdout" THEN out' = "report" /\ UNCHANGED target
                  ELSE /\ target' = "new"
                       /\ out' = IF sc.cmd = "report" /\ sc.format = "pdf" THEN "notice" ELSE "empty"
          ELSE /\ step' = step + 1 /\ UNCHANGED <<exit, out, target>>
  /\ UNCHANGED sc
CliNext == DoStep

\* C15
FailureIsClean == exit = "fail" => out = "empty" /\ target = sc.target
SuccessIsComplete == exit = "ok" => (IF sc.output = "stdout" THEN out = "report" ELSE target = "new")
\* the default PDF path never replaces an existing file
DefaultPdfNeverClobbers ==
  (sc.cmd = "report" /\ sc.format = "pdf" /\ sc.output \in DefaultOutputs /\ sc.target = "old") => target = "old" /\ exit # "ok"
\* output appears only at the very last step
NothingBeforeTheEnd == [][(out' # out \/ target' # target) => exit' = "ok"]_clivars
=============================================================================
