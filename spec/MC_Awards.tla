------------------------------ MODULE MC_Awards ------------------------------
(* Every awards file of at most MaxEntries entries placed at day offsets -9 .. +2 around a deposit *)
(* on day 0 (day numbers are offsets + 100 so that they stay positive): vest-date values with and   *)
(* without their own vest date, fallback prices, both in one entry in either order, duplicates     *)
(* with different prices, another symbol.  One AWARDS line per file with the admissible results.   *)
EXTENDS Awards, TLC, Json

CONSTANTS MaxEntries, EntryDays    \* day numbers; the deposit is on day 100
Dep == 100
D(kind, vdate, price) == [kind |-> kind, vdate |-> vdate, price |-> price, fprice |-> ""]
DB(vdate, price, fprice) == [kind |-> "both", vdate |-> vdate, price |-> price, fprice |-> fprice]
EntryShapes(date) ==
  { [date |-> date, sym |-> "ACME", details |-> {D("vest", 0, "125.50")}, order |-> "vf"],
    [date |-> date, sym |-> "ACME", details |-> {D("fallback", 0, "130.00")}, order |-> "vf"],
    \* a fallback price and a vest-date value whose vest date is two days before the entry date
    [date |-> date, sym |-> "ACME", details |-> {D("fallback", 0, "131.00"), D("vest", date - 2, "126.00")}, order |-> "fv"],
    [date |-> date, sym |-> "ACME", details |-> {D("fallback", 0, "131.00"), D("vest", date - 2, "126.00")}, order |-> "vf"],
    \* both values in ONE detail object, with and without its own vest date
    [date |-> date, sym |-> "ACME", details |-> {DB(0, "127.25", "133.00")}, order |-> "vf"],
    [date |-> date, sym |-> "ACME", details |-> {DB(date - 1, "128.75", "134.00")}, order |-> "vf"],
    [date |-> date, sym |-> "OTHR", details |-> {D("vest", 0, "9.99")}, order |-> "vf"] }
AllEntries == UNION {EntryShapes(d) : d \in EntryDays}
Files == UNION {[1..n -> AllEntries] : n \in 0..MaxEntries}

Emit ==
  \A f \in Files :
    \* admissible2: a second deposit on the same day, of the other symbol, looked up on its own
    PrintT(<<"AWARDS", ToJson([entries |-> f, dep |-> Dep, sym |-> "ACME", admissible |-> Lookup(f, "ACME", Dep),
                               sym2 |-> "OTHR", admissible2 |-> Lookup(f, "OTHR", Dep)])>>)
ASSUME Emit
\* sanity of the look-up on the model: never a later entry, never older than seven days, and the closest one
Sound ==
  \A f \in Files : \A r \in Lookup(f, "ACME", Dep) :
    /\ r[2] <= Dep /\ r[2] >= Dep - 7
    /\ \A c \in Candidates(f) : (c[1] = "ACME" /\ c[2] <= Dep /\ c[2] >= Dep - 7) => c[2] <= r[2]
ASSUME Sound

VARIABLE dummy
Init == dummy = 0
Next == UNCHANGED dummy
Spec == Init /\ [][Next]_dummy
=============================================================================
