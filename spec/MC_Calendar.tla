---------------------------- MODULE MC_Calendar ----------------------------
(* Every day from 1899-12-31 to 2101-12-31 is one state: the calendar arithmetic is     *)
(* checked against its own inverse, the tax-year partition is checked, and one DAY line *)
(* per date is printed for the conformance harness (three derivations in the code).     *)
EXTENDS Calendar, TLC

VARIABLE n
First == DayNumber(1899, 12, 31)
Last == DayNumber(2101, 12, 31)
Init == n \in First..Last
Next == UNCHANGED n
Spec == Init /\ [][Next]_n

RoundTrip == LET c == Civil(n) IN ValidYMD(c.y, c.m, c.d) /\ DayNumber(c.y, c.m, c.d) = n
\* every date belongs to exactly one tax year
Partition ==
  LET Y == TaxYearOf(n) IN
  /\ InTaxYear(n, Y)
  /\ \A Z \in (Y - 1)..(Y + 1) : Z # Y => ~InTaxYear(n, Z)
\* consecutive tax years tile the line: the day after the last day of Y is the first day of Y+1
Tiling == LET Y == TaxYearOf(n) IN LastDayOfTaxYear(Y) + 1 = FirstDayOfTaxYear(Y + 1)
Emit == LET c == Civil(n) Y == TaxYearOf(n) IN
  PrintT(<<"DAY", n, c.y, c.m, c.d, Y, TaxYearSupported(Y)>>)
=============================================================================
