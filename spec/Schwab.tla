------------------------------- MODULE Schwab -------------------------------
(***************************************************************************)
(* The Schwab export converter (C18) as the two-pass machine of            *)
(* cgt-converter/src/schwab/mod.rs:                                        *)
(*   pass 1  CollectWithholding : NRA withholding / adjustment rows are    *)
(*           summed per (date, symbol);                                    *)
(*   pass 2  MapRow : Buy / Sell -> BUY / SELL line; Cancel Sell -> a      *)
(*           pending cancellation; dividend kinds -> DIVIDEND carrying the *)
(*           day's withholding; Stock Split and unknown actions -> comment *)
(*           (+ warning for unknown) and counted as skipped; other         *)
(*           non-CGT actions counted as skipped;                           *)
(*   ApplyCancel : each pending cancellation removes exactly one SELL      *)
(*           equal in date, symbol, quantity and price, or warns;          *)
(*   SortEmit : lines are emitted in chronological order.                  *)
(* Quantities and money are opaque literals (strings); dates are day       *)
(* indices.  Where the statement is silent the model is silent too: a      *)
(* withholding row without a same-day dividend, and a dividend row with a  *)
(* blank amount, are dropped without a count.                              *)
(***************************************************************************)
EXTENDS Integers, Sequences, FiniteSets

VARIABLES rows,      \* the export: sequence of row records (fixed)
          phase, i,  \* "collect" | "map" | "cancel" | "done"; row / cancellation index
          withheld,  \* [<<date, sym>> -> sequence of withheld amounts] not yet attached
          lines,     \* sequence of emitted transaction lines (records)
          pending,   \* sequence of pending cancellations
          skipped, comments, warnings
svars == <<rows, phase, i, withheld, lines, pending, skipped, comments, warnings>>

DivKinds == {"CashDividend", "QualifiedDividend", "ShortTermCapGain", "LongTermCapGain"}
TaxKinds == {"NraTaxAdj", "NraWithholding"}
NonCgtKinds == {"Journal", "WireSent", "CreditInterest", "ServiceFee"}
Key(r) == <<r.date, r.sym>>
TradeKey(r) == <<r.date, r.sym, r.qty, r.price>>

SInit(rs) ==
  /\ rows = rs /\ phase = "collect" /\ i = 1
  /\ withheld = [k \in {} |-> <<>>] /\ lines = <<>> /\ pending = <<>>
  /\ skipped = 0 /\ comments = <<>> /\ warnings = 0

CollectWithholding ==
  /\ phase = "collect"
  /\ IF i > Len(rows) THEN phase' = "map" /\ i' = 1 /\ UNCHANGED withheld
     ELSE /\ i' = i + 1 /\ UNCHANGED phase
          /\ LET r == rows[i] IN
             IF r.kind \in TaxKinds /\ r.amount # ""
             THEN withheld' = [k \in (DOMAIN withheld) \cup {Key(r)} |->
                                  IF k = Key(r) THEN (IF k \in DOMAIN withheld THEN withheld[k] ELSE <<>>) \o <<r.amount>>
                                  ELSE withheld[k]]
             ELSE UNCHANGED withheld
  /\ UNCHANGED <<rows, lines, pending, skipped, comments, warnings>>

MapRow ==
  /\ phase = "map"
  /\ IF i > Len(rows) THEN phase' = "cancel" /\ i' = 1 /\ UNCHANGED <<withheld, lines, pending, skipped, comments, warnings>>
     ELSE /\ i' = i + 1 /\ UNCHANGED phase
          /\ LET r == rows[i] IN
             CASE r.kind \in {"Buy", "Sell"} ->
                    /\ lines' = Append(lines, [cmd |-> IF r.kind = "Buy" THEN "BUY" ELSE "SELL", date |-> r.date, sym |-> r.sym,
                                               qty |-> r.qty, price |-> r.price, fees |-> r.fees, tax |-> <<>>])
                    /\ UNCHANGED <<withheld, pending, skipped, comments, warnings>>
               [] r.kind = "CancelSell" ->
                    /\ pending' = Append(pending, TradeKey(r))
                    /\ UNCHANGED <<withheld, lines, skipped, comments, warnings>>
               [] r.kind \in DivKinds ->
                    IF r.amount = "" THEN UNCHANGED <<withheld, lines, pending, skipped, comments, warnings>>
                    ELSE /\ lines' = Append(lines, [cmd |-> "DIVIDEND", date |-> r.date, sym |-> r.sym, qty |-> "", price |-> r.amount, fees |-> "",
                                                    tax |-> IF Key(r) \in DOMAIN withheld THEN withheld[Key(r)] ELSE <<>>])
                         /\ withheld' = [k \in (DOMAIN withheld) \ {Key(r)} |-> withheld[k]]
                         /\ UNCHANGED <<pending, skipped, comments, warnings>>
               [] r.kind = "StockSplit" ->
                    /\ skipped' = skipped + 1 /\ comments' = Append(comments, "split")
                    /\ UNCHANGED <<withheld, lines, pending, warnings>>
               [] r.kind = "Unknown" ->
                    /\ skipped' = skipped + 1 /\ comments' = Append(comments, "unknown") /\ warnings' = warnings + 1
                    /\ UNCHANGED <<withheld, lines, pending>>
               [] r.kind \in NonCgtKinds ->
                    /\ skipped' = skipped + 1
                    /\ UNCHANGED <<withheld, lines, pending, comments, warnings>>
               [] OTHER -> UNCHANGED <<withheld, lines, pending, skipped, comments, warnings>>   \* tax rows: done in pass 1
  /\ UNCHANGED rows

IsSellWith(l, k) == l.cmd = "SELL" /\ <<l.date, l.sym, l.qty, l.price>> = k
ApplyCancel ==
  /\ phase = "cancel"
  /\ IF i > Len(pending) THEN phase' = "done" /\ UNCHANGED <<i, lines, warnings>>
     ELSE /\ i' = i + 1 /\ UNCHANGED phase
          /\ LET k == pending[i]
                 hits == {j \in 1..Len(lines) : IsSellWith(lines[j], k)}
             IN IF hits = {} THEN warnings' = warnings + 1 /\ UNCHANGED lines
                ELSE LET j == CHOOSE x \in hits : \A y \in hits : x <= y IN
                     /\ lines' = SubSeq(lines, 1, j - 1) \o SubSeq(lines, j + 1, Len(lines))
                     /\ UNCHANGED warnings
  /\ UNCHANGED <<rows, withheld, pending, skipped, comments>>

SNext == CollectWithholding \/ MapRow \/ ApplyCancel
Done == phase = "done"

-----------------------------------------------------------------------------
(* What the statement promises, as invariants of the finished machine *)
Count(S) == Cardinality(S)
RowsOf(kinds) == {j \in 1..Len(rows) : rows[j].kind \in kinds}
LinesOf(cmd) == {j \in 1..Len(lines) : lines[j].cmd = cmd}

\* every Buy row is exactly one BUY line with the same fields
BuysKept ==
  Done => \A k \in {TradeKey(rows[j]) : j \in RowsOf({"Buy"})} :
            Count({j \in RowsOf({"Buy"}) : TradeKey(rows[j]) = k}) =
            Count({j \in LinesOf("BUY") : <<lines[j].date, lines[j].sym, lines[j].qty, lines[j].price>> = k})
\* per trade key: sells out = max(0, sells in - cancels)  (each Cancel Sell removes exactly one identical Sell)
SellsLessCancels ==
  Done => \A k \in {TradeKey(rows[j]) : j \in RowsOf({"Sell", "CancelSell"})} :
            LET ins == Count({j \in RowsOf({"Sell"}) : TradeKey(rows[j]) = k})
                cs == Count({j \in RowsOf({"CancelSell"}) : TradeKey(rows[j]) = k})
                outs == Count({j \in LinesOf("SELL") : IsSellWith(lines[j], k)})
            IN outs = (IF ins >= cs THEN ins - cs ELSE 0)
\* nothing relevant disappears silently: every other row is a line, a count, or a comment + count
NothingSilent ==
  Done => skipped = Count(RowsOf({"StockSplit", "Unknown"} \cup NonCgtKinds))
          /\ Len(comments) = Count(RowsOf({"StockSplit", "Unknown"}))
\* one DIVIDEND line per dividend row that states an amount; withholding of a (date, symbol) is attached once
DividendsKept ==
  Done => /\ Count(LinesOf("DIVIDEND")) = Count({j \in RowsOf(DivKinds) : rows[j].amount # ""})
          /\ \A k \in {Key(rows[j]) : j \in RowsOf(DivKinds)} :
               (\E j \in RowsOf(DivKinds) : Key(rows[j]) = k /\ rows[j].amount # "") =>
                 Count({j \in LinesOf("DIVIDEND") : <<lines[j].date, lines[j].sym>> = k /\ lines[j].tax # <<>>}) <= 1
=============================================================================
