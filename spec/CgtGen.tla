------------------------------- MODULE CgtGen -------------------------------
(* Deterministic cell contents for the generated ledgers: pairwise distinct prices   *)
(* and fees per day slot, chosen so that disposals are gains, losses and exact zeros *)
(* and so that a wrong lot, a wrong rule or a wrong divisor shows in the figures.    *)
EXTENDS Integers, Sequences, Rat

BP == <<10, 12, 15, 9, 14, 11, 13, 16>>
BF == <<1, 0, 2, 1, 0, 3, 1, 2>>
SP == <<20, 8, 17, 13, 19, 7, 21, 12>>
SF == <<0, 1, 2, 0, 1, 0, 2, 1>>

SplitTable == << <<2, 1>>, <<3, 1>>, <<1, 2>>, <<3, 2>> >>
\* [ac, cr, crf]
EventTable == << <<0, 1, 0>>, <<3, 0, 0>>, <<0, 3, 1>>, <<2, 2, 0>>, <<0, 40, 0>>, <<0, 20, 0>> >>

\* cell of security number sh (0-based) on day slot d: bq / qden bought, sq / qden sold,
\* split kind spk (0 = none), cost-event kind evk (0 = none)
\* (cheap = a day slot whose purchases cost 1 a share with no fee, so that lots of very different unit cost
\*  meet one capital return; 0 = none)
GenCellOfC(sh, d, bq, sq, qden, spk, evk, cheap) ==
  [bq |-> Norm(bq, qden),
   bp |-> IF bq = 0 THEN Zero ELSE IF d = cheap THEN One ELSE R(BP[d] + 3 * sh),
   bf |-> IF bq = 0 THEN Zero ELSE IF d = cheap THEN Zero ELSE R(BF[d] + sh),
   sq |-> Norm(sq, qden),
   sp |-> IF sq = 0 THEN Zero ELSE R(SP[d] + 2 * sh),
   sf |-> IF sq = 0 THEN Zero ELSE R(SF[d]),
   split |-> IF spk = 0 THEN One ELSE Norm(SplitTable[spk][1], SplitTable[spk][2]),
   ac |-> IF evk = 0 THEN Zero ELSE R(EventTable[evk][1]),
   cr |-> IF evk = 0 THEN Zero ELSE R(EventTable[evk][2]),
   crf |-> IF evk = 0 THEN Zero ELSE R(EventTable[evk][3])]
GenCellOf(sh, d, bq, sq, qden, spk, evk) == GenCellOfC(sh, d, bq, sq, qden, spk, evk, 0)
=============================================================================
