------------------------------ MODULE McpTrace ------------------------------
(***************************************************************************)
(* Trace validation for C20: sessions recorded from the REAL cgt-tool mcp  *)
(* process (one ndjson event per line written to or read from its pipes)   *)
(* are checked to be behaviours of Mcp.  Events:                           *)
(*   Reset                      a new process was started                  *)
(*   Send  id class             the client wrote a request (logged before  *)
(*                              the bytes are written)                     *)
(*   Notify class               the client wrote a notification            *)
(*   Recv  id kind digest       the client read a response                 *)
(*   Close                      the client closed the server's stdin       *)
(*   Exit  code                 the process exited                         *)
(* The expected answer of every class (Expect) comes with the trace file   *)
(* (first line), computed from the CLI / from a solitary reference call.   *)
(***************************************************************************)
EXTENDS Mcp, TLC, Json, IOUtils

VARIABLE l
Lines == ndJsonDeserialize(IOEnv.TRACE)
Header == Lines[1]
Ev == [i \in 1..(Len(Lines) - 1) |-> Lines[i + 1]]
TClasses == {Header.classes[i] : i \in 1..Len(Header.classes)}
TExpect == [c \in TClasses |-> Header.expect[c]]

IsEvent(e) == l <= Len(Ev) /\ Ev[l].event = e /\ l' = l + 1

TReset ==
  /\ IsEvent("Reset")
  /\ (l > 1 => ~alive)                      \* the previous process must have exited (C20: clean end of every session)
  /\ nextId' = 1 /\ class' = [x \in {} |-> ""] /\ pending' = {} /\ answers' = [x \in {} |-> <<>>]
  /\ notified' = 0 /\ stdin' = "open" /\ alive' = TRUE
TSend == /\ IsEvent("Send") /\ Ev[l].id = nextId /\ ClientSend(Ev[l].class)
TNotify == /\ IsEvent("Notify") /\ ClientNotify(Ev[l].class)
TRecv ==
  /\ IsEvent("Recv")
  /\ ServerAnswer(Ev[l].id)                                  \* needs the id to be in flight: no double, no unknown id
  /\ answers'[Ev[l].id] = <<Ev[l].kind, Ev[l].digest>>      \* ... and the payload the class requires
TClose == IsEvent("Close") /\ ClientClose
TExit == IsEvent("Exit") /\ ServerExit /\ Ev[l].code = 0

TraceInit == MInit /\ l = 1
TraceNext == TReset \/ TSend \/ TNotify \/ TRecv \/ TClose \/ TExit
TraceSpec == TraceInit /\ [][TraceNext]_<<mvars, l>>

\* accepted iff every event was consumed; otherwise report the first event that is not a step of Mcp
TraceAccepted ==
  LET d == TLCGet("stats").diameter IN
  IF d - 1 = Len(Ev) THEN TRUE
  ELSE Print(<<"REJECTED_AT", d, IF d <= Len(Ev) THEN Ev[d] ELSE "end">>, FALSE)
=============================================================================
