------------------------------- MODULE Report -------------------------------
(***************************************************************************)
(* From legs to the tax report (C04, C07): legs are grouped into one       *)
(* disposal per (date, security); each tax year nets its disposals into    *)
(* total gain / total loss / net gain, counts them, adds the year's cash   *)
(* dividends, looks the exemption up (an unconfigured year is an error,    *)
(* never zero) and derives the taxable gain.  A single-year report is the  *)
(* projection of the all-years report on that year (SliceYear).            *)
(*                                                                         *)
(* Exemption look-up is the layering machine of config.rs: the embedded    *)
(* table, then ./config.toml, then ~/.config/cgt-tool/config.toml, each    *)
(* later layer replacing exactly the years it lists (ApplyOverride).       *)
(***************************************************************************)
EXTENDS Integers, Sequences, FiniteSets, Rat

\* sum of a function's values (finite domain, rationals)
RECURSIVE SumFn(_)
SumFn(f) ==
  IF DOMAIN f = {} THEN Zero
  ELSE LET x == CHOOSE x \in DOMAIN f : TRUE
       IN Add(f[x], SumFn([y \in (DOMAIN f) \ {x} |-> f[y]]))

DispKeys(legs) == {<<legs[i].s, legs[i].d>> : i \in 1..Len(legs)}
DispLegs(legs, k) == SelectSeq(legs, LAMBDA g : g.s = k[1] /\ g.d = k[2])
SeqSum(ls, F(_)) == SumRange([i \in 1..Len(ls) |-> F(ls[i])], 1, Len(ls))
DispQty(legs, k) == SeqSum(DispLegs(legs, k), LAMBDA g : g.q)
DispGross(legs, k) == SeqSum(DispLegs(legs, k), LAMBDA g : g.gross)
DispNetProceeds(legs, k) == SeqSum(DispLegs(legs, k), LAMBDA g : g.net)
DispCost(legs, k) == SeqSum(DispLegs(legs, k), LAMBDA g : g.cost)
DispResult(legs, k) == SeqSum(DispLegs(legs, k), LAMBDA g : g.gain)

\* yearOf : day slot -> tax-year start
YearsPresent(legs, yearOf) == {yearOf[k[2]] : k \in DispKeys(legs)}
YearKeys(legs, yearOf, Y) == {k \in DispKeys(legs) : yearOf[k[2]] = Y}
Pos(x) == IF IsPos(x) THEN x ELSE Zero
NegPart(x) == IF IsNeg(x) THEN Neg(x) ELSE Zero
TotalGain(legs, yearOf, Y) == SumFn([k \in YearKeys(legs, yearOf, Y) |-> Pos(DispResult(legs, k))])
TotalLoss(legs, yearOf, Y) == SumFn([k \in YearKeys(legs, yearOf, Y) |-> NegPart(DispResult(legs, k))])
NetGain(legs, yearOf, Y) == Sub(TotalGain(legs, yearOf, Y), TotalLoss(legs, yearOf, Y))
YearGross(legs, yearOf, Y) == SumFn([k \in YearKeys(legs, yearOf, Y) |-> DispGross(legs, k)])
Taxable(net, exempt) == Pos(Sub(net, exempt))

\* exemption tables are sets of <<year, amount>> pairs with at most one pair per year
Lookup(table, Y) == IF \E p \in table : p[1] = Y THEN (CHOOSE p \in table : p[1] = Y)[2] ELSE -1
Configured(table, Y) == \E p \in table : p[1] = Y
\* one override layer: replaces exactly the years it lists, adds the others, touches nothing else
ApplyOverride(table, file) ==
  IF file.kind # "valid" THEN table
  ELSE {p \in table : ~\E q \in file.table : q[1] = p[1]} \cup file.table
Layered(embedded, cwdFile, homeFile) == ApplyOverride(ApplyOverride(embedded, cwdFile), homeFile)

\* frame condition of a layer (checked by the models): years not listed are untouched
OverrideIsLocal(table, file) ==
  \A p \in table : (~\E q \in file.table : q[1] = p[1]) => p \in ApplyOverride(table, file)
=============================================================================
