----------------------------- MODULE MC_Report -----------------------------
(* The matcher model (MC_Cgt) extended to the report: the enumerated ledgers are placed on *)
(* real dates around the 5/6 April boundary, cash dividends are added, and the per-year    *)
(* totals of Report.tla are printed with each behaviour (REPORT line).                     *)
EXTENDS MC_Cgt, Calendar, Report

CONSTANTS
  BaseY, BaseM, BaseD,   \* date of day offset 0
  DivDays,       \* day slots on which every security pays a cash dividend
  ExemptYears,   \* years with a configured exemption
  ExemptAmt      \* the amount (kept small so that taxable gain is not always zero)

BaseYMD == <<BaseY, BaseM, BaseD>>
BaseDay == DayNumber(BaseY, BaseM, BaseD)
SlotYear == [d \in 1..MC_N |-> TaxYearOf(BaseDay + MC_DayNo[d])]
ExemptTable == {<<y, ExemptAmt + (y - 2000)>> : y \in ExemptYears}
DivIncome(s, d) == IF d \in DivDays THEN R(7 + SecShift(s) + d) ELSE Zero
DivTax(s, d) == IF d \in DivDays THEN R(d) ELSE Zero
YearDivIncome(Y) == SumFn([p \in {q \in Secs \X (1..MC_N) : SlotYear[q[2]] = Y} |-> DivIncome(p[1], p[2])])
YearDivTax(Y) == SumFn([p \in {q \in Secs \X (1..MC_N) : SlotYear[q[2]] = Y} |-> DivTax(p[1], p[2])])

Years == YearsPresent(legs, SlotYear)
MissingYear == \E Y \in Years : ~Configured(ExemptTable, Y)
YearRec(Y) ==
  LET net == NetGain(legs, SlotYear, Y)
      ex == Lookup(ExemptTable, Y)
  IN [year |-> Y, count |-> Cardinality(YearKeys(legs, SlotYear, Y)),
      gain |-> TotalGain(legs, SlotYear, Y), loss |-> TotalLoss(legs, SlotYear, Y), net |-> net,
      gross |-> YearGross(legs, SlotYear, Y),
      exempt |-> R(ex), taxable |-> Taxable(net, R(ex)),
      div_income |-> YearDivIncome(Y), div_tax |-> YearDivTax(Y)]
SortedYears == LET n == Cardinality(Years) IN
  IF n = 0 THEN <<>> ELSE CHOOSE f \in [1..n -> Years] : \A i, j \in 1..n : i < j => f[i] < f[j]

\* C04 identities on the specification's own figures
ReportIdentities ==
  pc = "done" =>
    /\ \A k \in DispKeys(legs) :
         /\ DispQty(legs, k) = C(k[1], k[2]).sq
         /\ DispGross(legs, k) = SellGross(k[1], k[2])
         /\ DispNetProceeds(legs, k) = Sub(SellGross(k[1], k[2]), C(k[1], k[2]).sf)
         /\ DispResult(legs, k) = Sub(DispNetProceeds(legs, k), DispCost(legs, k))
    /\ \A Y \in Years :
         /\ ~IsNeg(TotalGain(legs, SlotYear, Y)) /\ ~IsNeg(TotalLoss(legs, SlotYear, Y))
         /\ NetGain(legs, SlotYear, Y) = SumFn([k \in YearKeys(legs, SlotYear, Y) |-> DispResult(legs, k)])
    /\ SumFn([Y \in Years |-> R(Cardinality(YearKeys(legs, SlotYear, Y)))]) = R(Cardinality(DispKeys(legs)))
    \* C07: every disposal is in exactly one listed year
    /\ \A k \in DispKeys(legs) : Cardinality({Y \in Years : k \in YearKeys(legs, SlotYear, Y)}) = 1

EmitReport ==
  (Emit /\ Terminated) =>
    PrintT(<<"REPORT", ToJson([outcome |-> Outcome, base |-> BaseYMD,
       slot_year |-> SlotYear,
       divs |-> [d \in 1..MC_N |-> [i \in 1..Len(SecSeq) |-> <<DivIncome(SecSeq[i], d), DivTax(SecSeq[i], d)>>]],
       exempt |-> ExemptTable,
       report_status |-> IF pc # "done" THEN "error" ELSE IF MissingYear THEN "missing_exemption" ELSE "ok",
       missing |-> {Y \in Years : ~Configured(ExemptTable, Y)},
       years |-> IF pc = "done" THEN [i \in 1..Cardinality(Years) |-> YearRec(SortedYears[i])] ELSE <<>>])>>)
=============================================================================
