--------------------------------- MODULE Mcp ---------------------------------
(***************************************************************************)
(* The MCP server over stdio (C20).  The client writes requests (each with *)
(* its own id) and notifications (no id) to the server's standard input;   *)
(* the server answers requests in ANY order (calls are dispatched          *)
(* concurrently), each exactly once, with a payload that is a function of  *)
(* the request alone; it keeps running until its input closes and then     *)
(* exits once nothing is in flight.                                        *)
(*                                                                         *)
(* A request class stands for a fixed (method, tool, arguments) triple; the *)
(* expected answer of a class is its kind ("result" / "error") and, for     *)
(* results, a digest of the payload (what the CLI prints for the same      *)
(* input).  History never enters the expected answer: that IS the          *)
(* statelessness requirement.                                              *)
(***************************************************************************)
EXTENDS Integers, Sequences, FiniteSets

CONSTANTS
  Classes,      \* request classes
  Notifs,       \* notification classes (never answered)
  Expect,       \* [Classes -> [kind : {"result", "error"}, digest : STRING]]
  MaxSends      \* bound on the number of messages a session sends (model constant)

VARIABLES
  nextId,       \* ids are 1, 2, 3, ... in send order
  class,        \* [id -> class] of every request sent so far
  pending,      \* ids sent and not yet answered
  answers,      \* [id -> <<kind, digest>>] of answered ids
  notified,     \* number of notifications sent
  stdin,        \* "open" | "closed"
  alive         \* TRUE until the process exits
mvars == <<nextId, class, pending, answers, notified, stdin, alive>>

MInit ==
  /\ nextId = 1 /\ class = [x \in {} |-> ""] /\ pending = {} /\ answers = [x \in {} |-> <<>>]
  /\ notified = 0 /\ stdin = "open" /\ alive = TRUE

ClientSend(c) ==
  /\ stdin = "open" /\ alive /\ nextId + notified <= MaxSends
  /\ class' = [x \in (DOMAIN class) \cup {nextId} |-> IF x = nextId THEN c ELSE class[x]]
  /\ pending' = pending \cup {nextId}
  /\ nextId' = nextId + 1
  /\ UNCHANGED <<answers, notified, stdin, alive>>
ClientNotify(n) ==
  /\ stdin = "open" /\ alive /\ nextId + notified <= MaxSends
  /\ notified' = notified + 1
  /\ UNCHANGED <<nextId, class, pending, answers, stdin, alive>>
\* the server answers some in-flight request: any order, the class's own answer
ServerAnswer(id) ==
  /\ alive /\ id \in pending
  /\ pending' = pending \ {id}
  /\ answers' = [x \in (DOMAIN answers) \cup {id} |-> IF x = id THEN <<Expect[class[id]].kind, Expect[class[id]].digest>> ELSE answers[x]]
  /\ UNCHANGED <<nextId, class, notified, stdin, alive>>
ClientClose ==
  /\ stdin = "open"
  /\ stdin' = "closed"
  /\ UNCHANGED <<nextId, class, pending, answers, notified, alive>>
ServerExit ==
  /\ alive /\ stdin = "closed" /\ pending = {}
  /\ alive' = FALSE
  /\ UNCHANGED <<nextId, class, pending, answers, notified, stdin>>

MNext ==
  \/ \E c \in Classes : ClientSend(c)
  \/ \E n \in Notifs : ClientNotify(n)
  \/ \E id \in pending : ServerAnswer(id)
  \/ ClientClose \/ ServerExit
Fairness == WF_mvars(\E id \in pending : ServerAnswer(id)) /\ WF_mvars(ServerExit)
MSpec == MInit /\ [][MNext]_mvars /\ Fairness

-----------------------------------------------------------------------------
\* no id is answered twice and no unknown id is answered
AtMostOnce == /\ DOMAIN answers \cap pending = {}
              /\ DOMAIN answers \cup pending = DOMAIN class
\* an answer depends on the request alone
Functional == \A id \in DOMAIN answers : answers[id] = <<Expect[class[id]].kind, Expect[class[id]].digest>>
Stateless == \A a, b \in DOMAIN answers : class[a] = class[b] => answers[a] = answers[b]
\* the server never exits while its input is open or a request is in flight
AliveUntilClose == ~alive => (stdin = "closed" /\ pending = {})
\* answers are never revised
AnswersStable == [][\A id \in DOMAIN answers : id \in DOMAIN answers' /\ answers'[id] = answers[id]]_mvars
\* every request is eventually answered; after the input closes the server eventually exits
EveryRequestAnswered == \A id \in 1..MaxSends : (id \in pending) ~> (id \in DOMAIN answers)
EventuallyExits == (stdin = "closed") ~> ~alive
=============================================================================
