----------------------------- MODULE MC_Matcher -----------------------------
(***************************************************************************)
(* Refinement check: the implementation-shaped machine Matcher and the     *)
(* abstract machine Cgt are run one after the other on every ledger of a   *)
(* bounded family (one security; buys, sells, one split, one cost event),  *)
(* Cgt's open apportionment `dist` being bound to what Matcher's pre-pass  *)
(* produced.  Invariant Refines: same acceptance, same legs in the same    *)
(* order, same pool; the pre-pass result is an admissible apportionment    *)
(* leaving no cost negative; an unabsorbable return is refused.            *)
(***************************************************************************)
EXTENDS Matcher, CgtConst, CgtGen, TLC, Json

CONSTANTS BuyQs, SellQs, SplitKinds, EventKinds, MaxCells,
          GenSteps, MaxSplits, MaxEvents   \* GenSteps = TRUE: the ledger is built one day per step (for tlc -simulate)

VARIABLES L, timing, dist, pc, day, si, pool, claimed, hold, rem, legs, err
avars == <<L, timing, dist, pc, day, si, pool, claimed, hold, rem, legs, err>>
SecOne == <<"SEC">>
A == INSTANCE Cgt WITH SecSeq <- SecOne

BaseCells == [bq : BuyQs, sq : SellQs]
NonEmpty(g) == Cardinality({d \in Days : g[d].bq # 0}) + Cardinality({d \in Days : g[d].sq # 0})
BaseLedgers == {g \in [Days -> BaseCells] : MaxCells = 0 \/ NonEmpty(g) <= MaxCells}
Marks(kinds) == {[d \in Days |-> 0]} \cup {[d \in Days |-> IF d = x THEN kk ELSE 0] : x \in Days, kk \in kinds}

EmptyLedger == [d \in Days |-> GenCellOf(0, d, 0, 0, 1, 0, 0)]
Init ==
  /\ IF GenSteps
     THEN \* generator mode: start from the empty ledger; GenStep fills one day per step, then the machine starts
          /\ ML = EmptyLedger /\ mpc = "gen" /\ mday = 1
          /\ plot = [a \in Days |-> ZeroPLot] /\ poff = [e \in Days |-> [a \in Days |-> Zero]]
          /\ lot = [a \in Days |-> ZeroLot] /\ fut = [a \in Days |-> Zero]
          /\ mpool = [q |-> Zero, c |-> Zero] /\ mheld = Zero /\ mrem = Zero /\ mlegs = <<>> /\ merr = <<>>
          /\ k = 1 /\ cum = One
     ELSE \E g \in BaseLedgers, sp \in Marks(SplitKinds), ev \in Marks(EventKinds) :
            MInit([d \in Days |-> GenCellOf(0, d, g[d].bq, g[d].sq, 1, sp[d], ev[d])])
  /\ L = [s \in {"SEC"} |-> [d \in Days |-> GenCellOf(0, 1, 0, 0, 1, 0, 0)]]
  /\ timing = "end" /\ dist = [s \in {"SEC"} |-> [e \in Days |-> [a \in Days |-> Zero]]]
  /\ pc = "idle" /\ day = 1 /\ si = 1
  /\ pool = [s \in {"SEC"} |-> [q |-> Zero, c |-> Zero]] /\ claimed = [s \in {"SEC"} |-> [a \in Days |-> Zero]]
  /\ hold = [s \in {"SEC"} |-> Zero] /\ rem = Zero /\ legs = <<>> /\ err = <<>>

\* generator mode: choose the cell of day `mday` (at most MaxSplits splits and MaxEvents cost events per ledger)
GenStep ==
  /\ mpc = "gen"
  /\ \E bq \in BuyQs, sq \in SellQs, sp \in SplitKinds \cup {0}, ev \in EventKinds \cup {0} :
       /\ (sp # 0 => Cardinality({d \in 1..(mday - 1) : ML[d].split # One}) < MaxSplits)
       /\ (ev # 0 => Cardinality({d \in 1..(mday - 1) : ~IsZero(ML[d].ac) \/ ~IsZero(ML[d].cr)}) < MaxEvents)
       /\ ML' = [ML EXCEPT ![mday] = GenCellOf(0, mday, bq, sq, 1, sp, ev)]
  /\ IF mday < N THEN mday' = mday + 1 /\ UNCHANGED mpc ELSE mday' = 1 /\ mpc' = "p_events"
  /\ UNCHANGED <<plot, poff, lot, fut, mpool, mheld, mrem, mlegs, merr, k, cum>>

\* hand the ledger and the pre-pass result to the abstract machine
StartAbstract ==
  /\ MTerminated /\ pc = "idle"
  /\ L' = [s \in {"SEC"} |-> ML]
  /\ dist' = [s \in {"SEC"} |-> poff]
  /\ pc' = "start"
  /\ UNCHANGED <<timing, day, si, pool, claimed, hold, rem, legs, err>> /\ UNCHANGED mvars
Enter ==
  /\ pc = "start" /\ pc' = A!EnterPc(1, 1)
  /\ UNCHANGED <<L, timing, dist, day, si, pool, claimed, hold, rem, legs, err>> /\ UNCHANGED mvars
Next ==
  \/ ~MTerminated /\ (MNext \/ GenStep) /\ UNCHANGED avars
  \/ StartAbstract \/ Enter
  \/ pc \notin {"idle", "start"} /\ A!Next /\ UNCHANGED mvars
Spec == Init /\ [][Next]_<<mvars, avars>>

Both == MTerminated /\ A!Terminated
Refines ==
  Both =>
    \* same acceptance ... except that the pre-pass may refuse a capital return the pool could absorb (the s122
    \* rule is one-directional); its refusal is then the only permitted difference
    /\ (mpc = "done") => (pc = "done")
    /\ (pc = "done" /\ mpc # "refused") => (mpc = "done")
    /\ (mpc = "failed") => (pc = "failed" /\ err[2] = merr[1])    \* ... refused at the same sale
    /\ (mpc = "done") =>
         /\ mlegs = legs
         /\ mpool = pool["SEC"]
         /\ mheld = hold["SEC"]
         /\ A!ValidDist                                   \* what the pre-pass did is an admissible apportionment
         /\ A!NoNegativeCost
\* the one-directional s122 rule: a return nothing can absorb is refused by the pre-pass
RefusesUnabsorbable == (MTerminated /\ pc \notin {"idle"}) => (A!MustRefuse => mpc = "refused")
Bookkeeping == LotsConsistent /\ ReservationsFit

\* one REPLAY line per ledger with the implementation-shaped machine's own outcome: here the apportionment is
\* DETERMINED (dist = poff), so the harness can compare leg costs and the recorded per-lot offsets exactly
CellArr(c) == <<c.bq, c.bp, c.bf, c.sq, c.sp, c.sf, c.split, c.ac, c.cr, c.crf>>
LegArr(g) == <<g.s, g.d, g.rule, g.a, g.q, g.cost, g.gross, g.net, g.gain>>
EmitReplay ==
  (MTerminated /\ pc = "idle") =>
    PrintT(<<"REPLAY", ToJson([days |-> MC_DayNo, secs |-> SecOne, timing |-> "end", exact |-> TRUE,
       ledger |-> <<[d \in Days |-> CellArr(ML[d])]>>,
       dist |-> <<poff>>,
       status |-> IF mpc = "done" THEN "ok" ELSE IF mpc = "refused" THEN "refused" ELSE "error",
       err |-> IF merr = <<>> THEN <<>> ELSE <<"SEC", merr[1]>>,
       uncovered |-> IF mpc = "failed" THEN {"SEC"} ELSE {},
       legs |-> [i \in 1..Len(mlegs) |-> LegArr(mlegs[i])],
       pool |-> <<<<mpool.q, mpool.c>>>>])>>)
=============================================================================
