------------------------------- MODULE MC_Mcp -------------------------------
(* Bounded model of Mcp: a few request classes, every interleaving of sends, answers, close. *)
EXTENDS Mcp, TLC
MC_Classes == {"calc", "parse", "bad"}
MC_Notifs == {"note"}
MC_Expect == [c \in MC_Classes |-> IF c = "bad" THEN [kind |-> "error", digest |-> ""] ELSE [kind |-> "result", digest |-> c]]
=============================================================================
