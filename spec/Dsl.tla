--------------------------------- MODULE Dsl ---------------------------------
(***************************************************************************)
(* The transaction DSL (C13, C14), written from the syntax table in        *)
(* README.md / docs/spec.md, not from parser.pest:                         *)
(*                                                                         *)
(*   DATE BUY|SELL TICKER QTY @ PRICE [CUR] [FEES AMOUNT [CUR]]            *)
(*   DATE DIVIDEND TICKER TOTAL VALUE [CUR] [TAX AMOUNT [CUR]]             *)
(*   DATE ACCUMULATION TICKER QTY TOTAL VALUE [CUR] [TAX AMOUNT [CUR]]     *)
(*   DATE CAPRETURN TICKER QTY TOTAL VALUE [CUR] [FEES AMOUNT [CUR]]       *)
(*   DATE SPLIT|UNSPLIT TICKER RATIO VALUE                                 *)
(*                                                                         *)
(* A line is a sequence of tokens; a token is a record [text, cls] where   *)
(* cls is the set of lexical classes its text belongs to (the vocabulary   *)
(* is finite, so classes are tabulated).  Recognition is positional and    *)
(* lexical: a keyword spelling such as SELL is a perfectly good ticker.    *)
(* Keywords and currency codes are case-insensitive, tickers are           *)
(* upper-cased, an omitted currency is GBP, an omitted FEES/TAX is zero.   *)
(***************************************************************************)
EXTENDS Integers, Sequences, FiniteSets

Tok(text, cls) == [text |-> text, cls |-> cls]
Has(t, c) == c \in t.cls

Cmds == {"BUY", "SELL", "DIVIDEND", "ACCUMULATION", "CAPRETURN", "SPLIT", "UNSPLIT"}
\* spellings that may never be read as a currency code (they are clause keywords)
Reserved == {"TAX", "BUY", "FEES", "TOTAL", "RATIO", "SELL"}

IsDate(t) == Has(t, "date")
IsCmd(t, c) == Has(t, "kw") /\ t.text = c
IsTicker(t) == Has(t, "alnum")
IsNum(t) == Has(t, "dec")
IsAt(t) == t.text = "@"
IsKw(t, k) == Has(t, "kw") /\ t.text = k
IsCur(t) == Has(t, "iso") /\ t.text \notin Reserved

\* money starting at position i: number, optional currency.  Returns <<next position, amount, currency>> or <<0>>
MoneyAt(ts, i) ==
  IF i > Len(ts) \/ ~IsNum(ts[i]) THEN <<0>>
  ELSE IF i + 1 <= Len(ts) /\ IsCur(ts[i + 1]) THEN <<i + 2, ts[i].text, ts[i + 1].text>>
  ELSE <<i + 1, ts[i].text, "GBP">>

\* optional clause "KW money" at position i.  <<next, amount, currency>>; absent clause = zero GBP; <<0>> = malformed
ClauseAt(ts, i, kw) ==
  IF i > Len(ts) THEN <<i, "0", "GBP">>
  ELSE IF IsKw(ts[i], kw) THEN MoneyAt(ts, i + 1)
  ELSE <<0>>

Reject == [ok |-> FALSE]
Tx(date, cmd, ticker, fields) == [ok |-> TRUE, date |-> date, cmd |-> cmd, ticker |-> ticker, f |-> fields]

\* BUY / SELL
ParseTrade(ts, cmd) ==
  IF Len(ts) < 6 \/ ~IsTicker(ts[3]) \/ ~IsNum(ts[4]) \/ ~IsAt(ts[5]) THEN Reject
  ELSE LET p == MoneyAt(ts, 6) IN
       IF p[1] = 0 THEN Reject
       ELSE LET c == ClauseAt(ts, p[1], "FEES") IN
            IF c[1] = 0 \/ c[1] # Len(ts) + 1 THEN Reject
            ELSE Tx(ts[1].text, cmd, ts[3].text, [qty |-> ts[4].text, amount |-> p[2], cur |-> p[3], extra |-> c[2], xcur |-> c[3]])

\* DIVIDEND (no quantity) / ACCUMULATION / CAPRETURN (quantity)
ParseTotal(ts, cmd, hasQty, clauseKw) ==
  LET k == IF hasQty THEN 5 ELSE 4 IN
  IF Len(ts) < k + 1 \/ ~IsTicker(ts[3]) \/ (hasQty /\ ~IsNum(ts[4])) \/ ~IsKw(ts[k], "TOTAL") THEN Reject
  ELSE LET p == MoneyAt(ts, k + 1) IN
       IF p[1] = 0 THEN Reject
       ELSE LET c == ClauseAt(ts, p[1], clauseKw) IN
            IF c[1] = 0 \/ c[1] # Len(ts) + 1 THEN Reject
            ELSE Tx(ts[1].text, cmd, ts[3].text,
                    [qty |-> IF hasQty THEN ts[4].text ELSE "", amount |-> p[2], cur |-> p[3], extra |-> c[2], xcur |-> c[3]])

ParseSplit(ts, cmd) ==
  IF Len(ts) # 5 \/ ~IsTicker(ts[3]) \/ ~IsKw(ts[4], "RATIO") \/ ~IsNum(ts[5]) THEN Reject
  ELSE Tx(ts[1].text, cmd, ts[3].text, [qty |-> "", amount |-> ts[5].text, cur |-> "", extra |-> "", xcur |-> ""])

\* Meaning of one line of tokens (Reject if it is not a transaction)
ParseLine(ts) ==
  IF Len(ts) < 3 \/ ~IsDate(ts[1]) \/ ~Has(ts[2], "kw") THEN Reject
  ELSE CASE ts[2].text \in {"BUY", "SELL"} -> ParseTrade(ts, ts[2].text)
         [] ts[2].text = "DIVIDEND" -> ParseTotal(ts, "DIVIDEND", FALSE, "TAX")
         [] ts[2].text = "ACCUMULATION" -> ParseTotal(ts, "ACCUMULATION", TRUE, "TAX")
         [] ts[2].text = "CAPRETURN" -> ParseTotal(ts, "CAPRETURN", TRUE, "FEES")
         [] ts[2].text \in {"SPLIT", "UNSPLIT"} -> ParseSplit(ts, ts[2].text)
         [] OTHER -> Reject
Accepts(ts) == ParseLine(ts).ok

-----------------------------------------------------------------------------
(* The writer (dsl.rs): always an explicit currency, a zero FEES/TAX clause omitted. *)

T(text, cls) == Tok(text, cls)
KW(k) == Tok(k, {"kw", "alnum"} \cup (IF Len(k) = 3 THEN {"alpha3"} ELSE {}))
Num(x) == Tok(x, {"dec", "alnum"})
CurTok(c) == Tok(c, {"iso", "alnum", "alpha3"})
IsZeroLit(x) == x \in {"0", "0.0", "0.00", "0.000"}

WriteMoney(a, c) == <<Num(a), CurTok(c)>>
WriteClause(kw, a, c) == IF IsZeroLit(a) THEN <<>> ELSE <<KW(kw)>> \o WriteMoney(a, c)
Write(tx) ==
  LET head == <<Tok(tx.date, {"date"}), KW(tx.cmd), Tok(tx.ticker, {"alnum"})>> IN
  CASE tx.cmd \in {"BUY", "SELL"} ->
         head \o <<Num(tx.f.qty), Tok("@", {})>> \o WriteMoney(tx.f.amount, tx.f.cur) \o WriteClause("FEES", tx.f.extra, tx.f.xcur)
    [] tx.cmd = "DIVIDEND" ->
         head \o <<KW("TOTAL")>> \o WriteMoney(tx.f.amount, tx.f.cur) \o WriteClause("TAX", tx.f.extra, tx.f.xcur)
    [] tx.cmd = "ACCUMULATION" ->
         head \o <<Num(tx.f.qty), KW("TOTAL")>> \o WriteMoney(tx.f.amount, tx.f.cur) \o WriteClause("TAX", tx.f.extra, tx.f.xcur)
    [] tx.cmd = "CAPRETURN" ->
         head \o <<Num(tx.f.qty), KW("TOTAL")>> \o WriteMoney(tx.f.amount, tx.f.cur) \o WriteClause("FEES", tx.f.extra, tx.f.xcur)
    [] OTHER -> head \o <<KW("RATIO"), Num(tx.f.amount)>>

\* what survives a write/parse round trip: a zero fee or tax loses its currency label
Normal(tx) ==
  IF tx.cmd \in {"SPLIT", "UNSPLIT"} THEN tx
  ELSE [tx EXCEPT !.f.extra = IF IsZeroLit(@) THEN "0" ELSE @, !.f.xcur = IF IsZeroLit(tx.f.extra) THEN "GBP" ELSE @]
RoundTrips(tx) == LET p == ParseLine(Write(tx)) IN p.ok /\ Normal(p) = Normal(tx)
Idempotent(tx) == LET p == ParseLine(Write(tx)) IN p.ok /\ Write(p) = Write(tx)
=============================================================================
