------------------------------ MODULE MC_Lines ------------------------------
(***************************************************************************)
(* Every ordered selection of at most MaxLines lines from a small alphabet *)
(* of transaction lines (two securities; same-day fills at different       *)
(* prices, two same-day sale lines, a split and an unsplit, a capital      *)
(* return and an accumulation) is run through the line-level machine Lines *)
(* -- every ORDER of the same lines is a behaviour of its own -- and then  *)
(* the abstract machine Cgt is run on the day cells the lines add up to,   *)
(* with its open apportionment bound to what Lines' pre-pass did.          *)
(*                                                                         *)
(* Invariant LinesRefine: same acceptance, same legs (per security, day,   *)
(* rule and acquisition day: same quantity and cost; per disposal: same    *)
(* proceeds and gain), same pools, same holdings.  Because Cgt only sees   *)
(* the cells, this also shows that the algorithm's result does not depend  *)
(* on the order of the lines (C06), nor on another security's lines (C09). *)
(* One LINES record per behaviour carries the machine's exact outcome for  *)
(* the replay into cgt_core::calculator::calculate.                        *)
(***************************************************************************)
EXTENDS Lines, TLC, Json, IOUtils

CONSTANTS FromFile,                  \* TRUE: the line lists are read from the ndjson file named by the environment variable LINESFILE
          MinLines, MaxLines, AlphabetSel      \* AlphabetSel: the indices of the alphabet that may be used

VARIABLES L, timing, dist, pc, day, si, pool, claimed, hold, rem, legs, err
avars == <<L, timing, dist, pc, day, si, pool, claimed, hold, rem, legs, err>>
NDays == Len(DayNo)
DaysL == 1..NDays
A == INSTANCE Cgt WITH SecSeq <- LSecs, N <- NDays

Ln(d, s, op, q, p, f) == [d |-> d, s |-> s, op |-> op, q |-> q, p |-> R(p), f |-> R(f)]
Alphabet == <<
  Ln(1, "AAA", "BUY", R(2), 10, 1),
  Ln(2, "AAA", "BUY", R(1), 12, 0),
  Ln(2, "AAA", "BUY", R(1), 15, 2),
  Ln(3, "AAA", "BUY", R(2), 9, 1),
  Ln(4, "AAA", "BUY", R(1), 14, 0),
  Ln(2, "AAA", "SELL", R(1), 20, 1),
  Ln(2, "AAA", "SELL", R(1), 17, 0),
  Ln(3, "AAA", "SELL", R(1), 13, 2),
  Ln(1, "AAA", "SELL", R(1), 8, 0),
  Ln(2, "AAA", "SPLIT", R(2), 0, 0),
  Ln(3, "AAA", "SPLIT", <<1, 2>>, 0, 0),
  Ln(2, "BBB", "BUY", R(1), 5, 0),
  Ln(2, "BBB", "SELL", R(1), 6, 1),
  Ln(3, "BBB", "BUY", R(1), 7, 0),
  Ln(3, "AAA", "CAPRETURN", Zero, 3, 1),
  Ln(2, "AAA", "ACC", Zero, 2, 0),
  Ln(4, "AAA", "SELL", R(2), 11, 1),
  Ln(2, "AAA", "SPLIT", R(3), 0, 0),          \* a second reorganisation on day 2 (18)
  Ln(3, "AAA", "BUY", R(1), 11, 0),           \* a second fill on day 3 (19)
  Ln(3, "BBB", "SPLIT", R(2), 0, 0) >>        \* the other security is reorganised inside AAA's 30-day window (20)

MC_LDayNo == <<0, 1, 31, 32>>
MC_LSecs == <<"AAA", "BBB">>
MC_AlphaAll == 1..Len(Alphabet)
MC_AlphaCore == {1, 2, 3, 4, 6, 7, 8, 10, 12, 15, 16}
\* separated fills on two different days, each with a sale between them: all 720 orders of exactly these six lines
MC_AlphaFills == {2, 3, 6, 4, 19, 8}
\* a sale, two reorganisations on the next day, a repurchase inside the window, a holding bought before
MC_AlphaSplits == {1, 6, 10, 18, 4, 11, 20}
\* a holding, a sale, and 30 days later a day on which the security is bought AND sold while the other security is bought too
\* (the same-day reservation of that purchase, next to the other security's lines, in every order)
MC_AlphaResv == {1, 6, 4, 8, 14, 13, 12}
Injective(f) == \A i, j \in DOMAIN f : i # j => f[i] # f[j]

\* line lists written by the harness (seeded random files of 8-14 lines, three securities, eight day slots): far longer
\* than anything enumerated; the refinement is checked on each and the machine's outcome goes back to the harness
FileRecs == IF FromFile THEN ndJsonDeserialize(IOEnv.LINESFILE) ELSE <<>>
LineOfJson(x) == [d |-> x[1], s |-> x[2], op |-> x[3], q |-> x[4], p |-> x[5], f |-> x[6]]
MC_LDayNo8 == <<0, 1, 2, 29, 30, 31, 32, 61>>
MC_LSecs3 == <<"AAA", "BBB", "CCC">>

Init ==
  /\ IF FromFile
     THEN \E i \in 1..Len(FileRecs) : LInit([j \in 1..Len(FileRecs[i].lines) |-> LineOfJson(FileRecs[i].lines[j])])
     ELSE \E n \in MinLines..MaxLines : \E f \in [1..n -> AlphabetSel] :
            Injective(f) /\ LInit([i \in 1..n |-> Alphabet[f[i]]])
  /\ L = [s \in SecSet |-> [d \in DaysL |-> A!NoCell]]
  /\ timing = "end" /\ dist = [s \in SecSet |-> [e \in DaysL |-> [a \in DaysL |-> Zero]]]
  /\ pc = "idle" /\ day = 1 /\ si = 1
  /\ pool = [s \in SecSet |-> [q |-> Zero, c |-> Zero]] /\ claimed = [s \in SecSet |-> [a \in DaysL |-> Zero]]
  /\ hold = [s \in SecSet |-> Zero] /\ rem = Zero /\ legs = <<>> /\ err = <<>>

\* the abstraction map: the day cell a set of lines adds up to
SumOver(s, d, op, F(_)) == SumSeq([j \in 1..Len(inp) |-> IF inp[j].s = s /\ inp[j].d = d /\ inp[j].op = op THEN F(inp[j]) ELSE Zero])
QOf(t) == t.q
VOf(t) == Mul(t.q, t.p)
FOf(t) == t.f
POf(t) == t.p
FactorOf(s, d) == ProdRange([j \in 1..Len(inp) |-> IF inp[j].s = s /\ inp[j].d = d /\ inp[j].op = "SPLIT" THEN inp[j].q ELSE One], 1, Len(inp))
CellOf(s, d) ==
  LET bq == SumOver(s, d, "BUY", QOf)
      sq == SumOver(s, d, "SELL", QOf)
  IN [bq |-> bq, bp |-> IF IsZero(bq) THEN Zero ELSE Div(SumOver(s, d, "BUY", VOf), bq), bf |-> SumOver(s, d, "BUY", FOf),
      sq |-> sq, sp |-> IF IsZero(sq) THEN Zero ELSE Div(SumOver(s, d, "SELL", VOf), sq), sf |-> SumOver(s, d, "SELL", FOf),
      split |-> FactorOf(s, d), cr |-> SumOver(s, d, "CAPRETURN", POf), crf |-> SumOver(s, d, "CAPRETURN", FOf),
      ac |-> SumOver(s, d, "ACC", POf)]

StartAbstract ==
  /\ LTerminated /\ pc = "idle"
  /\ L' = [s \in SecSet |-> [d \in DaysL |-> CellOf(s, d)]]
  /\ dist' = pdist
  /\ pc' = "start"
  /\ UNCHANGED <<timing, day, si, pool, claimed, hold, rem, legs, err>> /\ UNCHANGED lvars
Enter ==
  /\ pc = "start" /\ pc' = A!EnterPc(1, 1)
  /\ UNCHANGED <<L, timing, dist, day, si, pool, claimed, hold, rem, legs, err>> /\ UNCHANGED lvars
Next ==
  \/ ~LTerminated /\ LNext /\ UNCHANGED avars
  \/ StartAbstract \/ Enter
  \/ pc \notin {"idle", "start"} /\ A!Next /\ UNCHANGED lvars
Spec == Init /\ [][Next]_<<lvars, avars>>

-----------------------------------------------------------------------------
Both == LTerminated /\ A!Terminated
Keys(lg) == {<<lg[i].s, lg[i].d, lg[i].rule, lg[i].a>> : i \in 1..Len(lg)}
SumKey(lg, k, F(_)) == SumSeq([i \in 1..Len(lg) |-> IF <<lg[i].s, lg[i].d, lg[i].rule, lg[i].a>> = k THEN F(lg[i]) ELSE Zero])
SumDisp(lg, s, d, F(_)) == SumSeq([i \in 1..Len(lg) |-> IF lg[i].s = s /\ lg[i].d = d THEN F(lg[i]) ELSE Zero])
GQ(g) == g.q
GCost(g) == g.cost
GGross(g) == g.gross
GNet(g) == g.net
GGain(g) == g.gain
\* the named deviation: non-adjacent same-day SELL lines stay separate sales, so a disposal may be reported in more
\* legs than the rule has (one per line); quantity and cost per (rule, acquisition day) and the disposal's proceeds and
\* gain are what must agree
LegsAgree ==
  /\ Keys(llegs) = Keys(legs)
  /\ \A k \in Keys(legs) : SumKey(llegs, k, GQ) = SumKey(legs, k, GQ) /\ SumKey(llegs, k, GCost) = SumKey(legs, k, GCost)
  /\ \A s \in SecSet, d \in DaysL :
       /\ SumDisp(llegs, s, d, GGross) = SumDisp(legs, s, d, GGross)
       /\ SumDisp(llegs, s, d, GNet) = SumDisp(legs, s, d, GNet)
       /\ SumDisp(llegs, s, d, GGain) = SumDisp(legs, s, d, GGain)
\* with one SELL line per (security, day) there is nothing to merge: the legs are the same records
OneSellLinePerDay == \A i, j \in 1..Len(txs) : (i < j /\ txs[i].op = "SELL" /\ txs[j].op = "SELL" /\ txs[i].d = txs[j].d) => txs[i].s # txs[j].s
LegSet(lg) == {lg[i] : i \in 1..Len(lg)}

LinesRefine ==
  Both =>
    /\ (lpc = "done") => (pc = "done")
    /\ (pc = "done" /\ lpc # "refused") => (lpc = "done")
    /\ (lpc = "failed") => (pc = "failed" /\ err[2] = lerr[2])
    /\ (lpc = "done") =>
         /\ LegsAgree
         /\ OneSellLinePerDay => (LegSet(llegs) = LegSet(legs) /\ Len(llegs) = Len(legs))
         /\ lpool = pool
         /\ lheld = hold
         /\ A!ValidDist
         /\ A!NoNegativeCost
\* with the repair (FoldSellLines = TRUE) nothing is left to merge: the legs are the same records for every order
DesignLegsIdentical == (Both /\ lpc = "done" /\ FoldSellLines) => (LegSet(llegs) = LegSet(legs) /\ Len(llegs) = Len(legs))
LinesRefuseUnabsorbable == (LTerminated /\ pc \notin {"idle"}) => (A!MustRefuse => lpc = "refused")

\* one LINES record per behaviour: the lines in their order and the machine's exact outcome
LineArr(t) == <<t.d, t.s, t.op, t.q, t.p, t.f>>
LegArr(g) == <<g.s, g.d, g.rule, g.a, g.q, g.cost, g.gross, g.net, g.gain>>
EmitLines ==
  (LTerminated /\ pc = "idle") =>
    PrintT(<<"LINES", ToJson([days |-> DayNo, secs |-> LSecs,
       lines |-> [i \in 1..Len(inp) |-> LineArr(inp[i])],
       status |-> IF lpc = "done" THEN "ok" ELSE IF lpc = "refused" THEN "refused" ELSE "error",
       err |-> lerr,
       legs |-> [i \in 1..Len(llegs) |-> LegArr(llegs[i])],
       pool |-> [i \in 1..Len(LSecs) |-> <<lpool[LSecs[i]].q, lpool[LSecs[i]].c>>],
       dist |-> [i \in 1..Len(LSecs) |-> pdist[LSecs[i]]]])>>)
=============================================================================
