------------------------------ MODULE MC_Format ------------------------------
(* Values for C17: every thousandth from -3 to +3 pounds that is a half-penny midpoint or    *)
(* near one, larger magnitudes around each digit-count boundary, each paired with a fixed    *)
(* loss so that a tax year nets a gain against a loss with sub-penny fractions.  One FMT     *)
(* line per value with the strings every front-end must show.                                *)
EXTENDS Format, Json

CONSTANT Dense   \* TRUE: every thousandth in -3000..3000; FALSE: midpoints and a sample
Small == IF Dense THEN -3000..3000
         ELSE {k \in -3000..3000 : (k - 10 * (k \div 10)) \in {5} \/ (k - 7 * (k \div 7)) = 0 \/ k \in -12..12}
Mags == {999, 1000, 1001, 9999, 10000, 12345, 99999, 100000, 100001, 649020, 999999, 1000000, 1234567, 2000000}
Large == UNION {{1000 * m, 1000 * m + 5, 1000 * m + 995, 1000 * m + 4, -(1000 * m + 5)} : m \in Mags}
Values == Small \cup Large
Loss == 5006       \* a loss of 5.006 in the same tax year
CostPounds == 5000000   \* allowable cost of each disposal, in whole pounds (keeps proceeds positive for every value)
FeeK == 100             \* sale fees of 0.10: gross proceeds = net proceeds + 0.10
ExemptK == 3000000      \* annual exempt amount 3,000.00
\* total cost of the 8 shares held: eight times a value with k's own last digits, so that the AVERAGE lands on a
\* half-penny midpoint whenever k does
HoldK(k) == LET a == FAbs(k) IN 8 * (a - 100000 * (a \div 100000)) + 8000
UnitK(k) == LET a == FAbs(k) IN a - 1000 * (a \div 1000)
\* a second holding, of 300 shares, whose average does NOT terminate and lies just BELOW a half-penny midpoint:
\* total cost 3000 j + 1499 thousandths, average 10 j + 4.99667 thousandths -> j pence; rounding it first to four or
\* five decimals and then to pence (double rounding) gives j + 1
Hold2Q == 300
Hold2K(k) == LET a == FAbs(k) IN 3000 * (a - 1000 * (a \div 1000) + 1) + 1499

Laws == \A k \in Values : RoundLaw(k)
ASSUME Laws

Emit ==
  \A k \in Values :
    PrintT(<<"FMT", ToJson([k |-> k, pence |-> RoundPence(k), gbp |-> Gbp(k), gbp_abs |-> Gbp(FAbs(k)),
                            net_k |-> k - Loss, net_pence |-> RoundPence(k - Loss), net_gbp |-> Gbp(k - Loss),
                            loss_gbp |-> Gbp(IF k < 0 THEN Loss - k ELSE Loss), gain_gbp |-> Gbp(IF k > 0 THEN k ELSE 0),
                            \* the other cells of the year's summary row and of the first disposal's details
                            proceeds_gbp |-> GbpBig(2 * CostPounds, k - Loss + 2 * FeeK),
                            exempt_gbp |-> Gbp(ExemptK),
                            taxable_gbp |-> Gbp(IF k - Loss - ExemptK > 0 THEN k - Loss - ExemptK ELSE 0),
                            d1_gross_gbp |-> GbpBig(CostPounds, k + FeeK), d1_net_gbp |-> GbpBig(CostPounds, k),
                            fee_gbp |-> Gbp(FeeK), cost_gbp |-> GbpBig(CostPounds, 0),
                            \* the first disposal has three legs (same day 1, 30-day 1, pool 2 shares); the pool leg's cost per share
                            \* is 1,250,000 pounds + UnitK(k) thousandths (so it lands on a midpoint whenever k does)
                            unit_k |-> UnitK(k), s104_unit_gbp |-> GbpBig(1250000, UnitK(k)),
                            \* a holding of 8 shares whose total cost is HoldK(k): average cost per share
                            hold_k |-> HoldK(k), hold_avg_gbp |-> GbpRatio(HoldK(k), 8),
                            hold2_k |-> Hold2K(k), hold2_avg_gbp |-> GbpRatio(Hold2K(k), Hold2Q)])>>)
ASSUME Emit
Labels ==
  \A Y \in 1900..2100 : PrintT(<<"LBL", ToJson([year |-> Y, label |-> TaxYearLabel(Y), date |-> DateUk(Y, 4, 5)])>>)
ASSUME Labels

\* echoes: every pairing of price currency and fee currency, values with 0-3 decimals, a half-penny, a million
Curs == {"GBP", "USD", "EUR"}
EchoPrices == {5, 1000, 1005, 12340, 150000, 1234565000}
EchoFees == {0, 5, 4250, 7500, 1234565}
EchoQtys == {10500, 3000, 1}
Echo ==
  \A pc \in Curs : \A fc \in Curs : \A pk \in EchoPrices : \A fk \in EchoFees :
    LET q == CHOOSE x \in EchoQtys : (x = 10500 /\ fk # 0 /\ fk # 5) \/ (x = 3000 /\ fk = 0) \/ (x = 1 /\ fk = 5) IN
    PrintT(<<"ECHO", ToJson([pcur |-> pc, fcur |-> fc, price |-> pk, fee |-> fk, qty |-> q,
                             text_price |-> PriceText(pk, pc), text_fee |-> PriceText(fk, fc),
                             pdf_price |-> CurCell(pk, pc), pdf_fee |-> CurCell(fk, fc),
                             event_text |-> EventText(fk, fc), pdf_event |-> CurCell(fk, fc),
                             qty_text |-> QtyText(q), qty_pdf |-> QtyPdf(q)])>>)
ASSUME Echo

VARIABLE dummy
Init == dummy = 0
Next == UNCHANGED dummy
Spec == Init /\ [][Next]_dummy
=============================================================================
