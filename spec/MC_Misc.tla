------------------------------- MODULE MC_Misc -------------------------------
(* Enumerations for C15: (b) every sign assignment of every transaction kind through the     *)
(* validator rule (VAL lines), alone and next to a clean neighbour; (c) hostile ledgers by    *)
(* magnitude class, for which the only requirement is totality: a report or an error, never   *)
(* a crash or a hang (HOSTILE lines).                                                         *)
EXTENDS Validator, TLC, Json

TxClasses == {[kind |-> k, q |-> q, m |-> m, x |-> x, r |-> r] : k \in Kinds, q \in Signs, m \in Signs, x \in Signs, r \in Signs}
\* fields a kind does not have are pinned to "pos" so that each class appears once
Canon(t) == /\ (~HasQty(t.kind) => t.q = "pos") /\ (~HasMoney(t.kind) => t.m = "pos" /\ t.x = "pos") /\ (~HasRatio(t.kind) => t.r = "pos")
Clean == [kind |-> "BUY", q |-> "pos", m |-> "pos", x |-> "zero", r |-> "pos"]
EmitVal ==
  \A t \in {c \in TxClasses : Canon(c)} : \A pos \in {"alone", "first", "second"} :
    LET ts == CASE pos = "alone" -> <<t>> [] pos = "first" -> <<t, Clean>> [] OTHER -> <<Clean, t>> IN
    PrintT(<<"VAL", ToJson([txs |-> ts, errors |-> ErrorPositions(ts)])>>)
ASSUME EmitVal

Mags == {"0", "0.0000000000000000000000000001", "1", "100000000000000", "79228162514264337593543950335"}
\* "MIN" / "MAX" are the ends of the calendar the library can represent (chrono: -262143-01-01, +262142-12-31;
\* reachable through the JSON input, not through the four-digit years of the DSL)
DatesH == {"0001-01-01", "2024-02-29", "9999-12-31", "MIN", "MAX"}
Second == {[kind |-> "none", a |-> "1", b |-> "1"]}
  \cup {[kind |-> k, a |-> a, b |-> b] : k \in {"SELL", "CAPRETURN", "ACCUMULATION"}, a \in Mags, b \in Mags}
  \cup {[kind |-> k, a |-> a, b |-> "1"] : k \in {"SPLIT", "UNSPLIT", "DIVIDEND"}, a \in Mags}
  \* a second line of the same kind on the same day (they are merged): BUYSAME = another BUY on the first BUY's day,
  \* SELLPAIR = two SELLs on one day with quantities a and b
  \cup {[kind |-> k, a |-> a, b |-> b] : k \in {"BUYSAME", "SELLPAIR"}, a \in Mags, b \in Mags}
  \* a reorganisation of ratio a dated between a sale of b shares and a repurchase within 30 days (the look-ahead
  \* has to carry the ratio from the sale to the purchase)
  \cup {[kind |-> k, a |-> a, b |-> b] : k \in {"SPLITMID", "UNSPLITMID"}, a \in Mags, b \in {"1", "0.0000000000000000000000000001"}}
EmitHostile ==
  \A q \in Mags : \A p \in Mags : \A s \in Second : \A d \in DatesH : \A order \in {"buy_first", "second_first"} :
    (s.kind = "none" => order = "buy_first") =>
      PrintT(<<"HOSTILE", ToJson([q |-> q, p |-> p, second |-> s, date |-> d, order |-> order, outcome |-> {"report", "error"}])>>)
ASSUME EmitHostile

VARIABLE dummy
Init == dummy = 0
Next == UNCHANGED dummy
Spec == Init /\ [][Next]_dummy
=============================================================================
