------------------------------- MODULE MC_Cli -------------------------------
(* All fault placements of every command/format/output combination (pipeline scenarios),  *)
(* the exemption-override layering configurations of Report.tla (C04) and the input-file   *)
(* partitions (C06), each printed as one CLI line for the harness to materialise.          *)
EXTENDS Cli, Report, TLC, Json

ReportFaults == {"none", "missing_input", "bad_fx_folder", "parse_error", "uncovered_sale", "missing_exemption", "missing_rate", "unlisted_currency", "bad_year", "unwritable_output"}
Scenarios ==
  {[cmd |-> "report", format |-> f, output |-> o, fault |-> x, target |-> t] :
      f \in {"plain", "json"}, o \in {"stdout", "file"}, x \in ReportFaults, t \in {"absent", "old"}}
  \cup {[cmd |-> "report", format |-> "pdf", output |-> o, fault |-> x, target |-> t] :
      o \in {"default", "default2", "file"}, x \in ReportFaults \cup {"default_pdf_exists"}, t \in {"absent", "old"}}
  \cup {[cmd |-> "parse", format |-> "json", output |-> "stdout", fault |-> x, target |-> "absent"] : x \in {"none", "missing_input", "parse_error"}}
  \cup {[cmd |-> "convert", format |-> "dsl", output |-> o, fault |-> x, target |-> t] :
      o \in {"stdout", "file"}, x \in {"none", "missing_input", "bad_export", "rsu_without_awards", "unwritable_output"}, t \in {"absent", "old"}}
\* combinations that cannot be staged are left out
Stageable(s) ==
  /\ (s.output = "stdout" => s.target = "absent")
  /\ (s.fault = "unwritable_output" => s.output = "file" /\ s.target = "absent")
  /\ (s.fault = "default_pdf_exists" <=> (s.output \in DefaultOutputs /\ s.target = "old"))

MCInit == \E s \in {x \in Scenarios : Stageable(x)} : CliInit(s)
MCSpec == MCInit /\ [][CliNext]_clivars

EmitScenario ==
  step = 0 => PrintT(<<"CLI", ToJson([kind |-> "pipeline", sc |-> sc, exit |-> exit, out |-> out, target |-> target])>>)

-----------------------------------------------------------------------------
(* C04: exemption layering.  Years: Y1, Y2 are in the embedded table, Y3 is not.  A file is *)
(* absent, invalid TOML, or valid with a table of <<year, amount>> pairs.                   *)
Y1 == 2020  Y2 == 2021  Y3 == 2030
FileChoices ==
  { [kind |-> "absent", table |-> {}], [kind |-> "invalid", table |-> {}],
    [kind |-> "valid", table |-> {<<Y3, 111>>}],
    [kind |-> "valid", table |-> {<<Y1, 222>>}],
    [kind |-> "valid", table |-> {<<Y1, 333>>, <<Y3, 444>>}],
    \* an exemption of exactly 0 is a configured amount like any other (replacing Y2, adding Y3)
    [kind |-> "valid", table |-> {<<Y2, 0>>, <<Y3, 0>>}] }
\* "embedded" amounts are symbolic (-Y): the harness reads them from the repository's data file
EmbeddedSym == {<<Y1, -Y1>>, <<Y2, -Y2>>}
LayeringCases == {[cwd |-> c, home |-> h] : c \in FileChoices, h \in FileChoices}
LayerResult(c) == Layered(EmbeddedSym, c.cwd, c.home)
LayeringLocal == \A c \in LayeringCases :
  /\ OverrideIsLocal(EmbeddedSym, c.cwd)
  /\ OverrideIsLocal(ApplyOverride(EmbeddedSym, c.cwd), c.home)
  \* the later layer (home) wins where both list a year
  /\ \A p \in c.home.table : c.home.kind = "valid" => Lookup(LayerResult(c), p[1]) = p[2]
ASSUME LayeringLocal
EmitLayering ==
  \A c \in LayeringCases :
    PrintT(<<"CLI", ToJson([kind |-> "layering", cwd |-> c.cwd, home |-> c.home,
                            expect |-> [y \in {Y1, Y2, Y3} |-> Lookup(LayerResult(c), y)],
                            years |-> <<Y1, Y2, Y3>>])>>)
ASSUME EmitLayering

-----------------------------------------------------------------------------
(* C06: the lines of one ledger distributed over 1..3 files in any way, the last line of a file *)
(* with or without a line ending; the report must equal the single-file report.                 *)
NLines == 5
Assignments == [1..NLines -> 1..3]
\* line endings inside and at the end of each file: LF, CRLF, bare CR (C13), or no final line ending
PartitionCases == {[assign |-> a, eol |-> e] : a \in Assignments, e \in [1..3 -> {"lf", "none", "crlf", "cr"}]}
EmitPartitions ==
  \A a \in Assignments : \A e \in {<<"lf", "lf", "lf">>, <<"none", "none", "none">>, <<"none", "crlf", "lf">>, <<"crlf", "none", "none">>,
                                      <<"cr", "cr", "cr">>, <<"cr", "none", "crlf">>} :
    PrintT(<<"CLI", ToJson([kind |-> "partition", assign |-> a, eol |-> e])>>)
ASSUME EmitPartitions
=============================================================================
