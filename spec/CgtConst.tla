------------------------------ MODULE CgtConst ------------------------------
(* Day-number sequences and security lists shared by the Cgt models (MC_Cgt, Obs_Cgt, MC_CgtLaw). *)
EXTENDS Integers, Sequences

CONSTANT DaySet      \* selects the day-number sequence (DayNoOf)

DayNoOf(k) ==
  CASE k = 1 -> <<0, 1, 2, 30, 31>>
    [] k = 2 -> <<0, 1, 2, 3, 29, 30, 31, 32>>
    [] k = 3 -> <<0, 1, 31, 32>>
    [] k = 4 -> <<0, 10, 20, 30, 40, 50>>
    [] k = 5 -> <<0, 1, 2, 3>>
    [] k = 6 -> <<0, 29, 30, 31, 60, 61>>
    [] k = 7 -> <<0, 1, 2>>
    [] k = 8 -> <<0, 1, 2, 3, 4, 30, 31>>
    [] k = 11 -> <<0, 1, 31, 32, 62>>       \* 30- and 31-day gaps between slots 1-3, 2-3, 2-4, 3-5, 4-5
    [] k = 9 -> <<0, 1, 2, 33, 34>>          \* prefix of 3 slots, then slots more than 30 days later
    [] k = 10 -> <<0, 29, 30, 61, 62, 92>>   \* prefix of 3 slots (30-day edge inside), extension 31 days later

SecSeqA == <<"AAA">>
SecSeqAB == <<"AAA", "BBB">>
MC_DayNo == DayNoOf(DaySet)
MC_N == Len(DayNoOf(DaySet))

=============================================================================
