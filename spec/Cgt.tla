-------------------------------- MODULE Cgt --------------------------------
(***************************************************************************)
(* UK share identification (TCGA92 s105(1) same day, s106A 30 days, s104   *)
(* pooled holding) as a state machine over a ledger of day cells.          *)
(*                                                                         *)
(* Written from docs/tax-rules.md and the statute, not from the Rust: a    *)
(* ledger is, per security, a function from day slots to the day's total   *)
(* acquisition (quantity, price, fees), total disposal (quantity, price,   *)
(* fees), the split factor taking effect that day and the net cost         *)
(* adjustment events (capital return, accumulation).  "All shares of the   *)
(* same class acquired on one day are one acquisition" (s105(1)(a)) is     *)
(* what makes the cell the right grain.                                    *)
(*                                                                         *)
(* One action per critical section of the implementation's matcher         *)
(* (crates/cgt-core/src/matcher): CheckHolding, SameDayLeg, BnbLeg,        *)
(* S104Leg, PoolRemainder, ApplySplit.  The whole-timeline cost pre-pass   *)
(* of the implementation is a named deviation: its result is the variable  *)
(* `adj` (adjustment attached to each acquisition day), constrained by     *)
(* ValidAdj below but otherwise left open, because the properties fix the  *)
(* total moved, not its apportionment.                                     *)
(***************************************************************************)
EXTENDS Integers, Sequences, FiniteSets, Rat

CONSTANTS
  SecSeq,       \* sequence of securities; fixed processing order inside a day
  N,            \* number of day slots
  DayNo         \* [1..N -> Int], strictly increasing calendar day numbers

VARIABLES
  L,        \* ledger: [Secs -> [1..N -> Cell]]
  timing,   \* "end": a split takes effect after its day's trades; "start": before them.  docs/spec.md and
            \* the code disagree and the properties do not settle it, so either reading is admissible;
            \* it is fixed for a whole behaviour
  dist,     \* [Secs -> [1..N -> [1..N -> Rat]]]: dist[s][e][a] = part of day e's net cost event put on acquisition day a
  pc, day, si,
  pool,     \* [Secs -> [q |-> Rat, c |-> Rat]]  Section 104 holding
  claimed,  \* [Secs -> [1..N -> Rat]] shares of day a's acquisition already identified by the 30-day rule (day-a units)
  hold,     \* [Secs -> Rat] shares actually held, in current units
  rem,      \* unidentified remainder of the disposal being processed
  legs,     \* sequence of emitted legs
  err       \* <<>> or <<security, day>> of the first uncovered disposal

vars == <<L, timing, dist, pc, day, si, pool, claimed, hold, rem, legs, err>>

Secs == {SecSeq[i] : i \in 1..Len(SecSeq)}
Days == 1..N
cur == SecSeq[si]

-----------------------------------------------------------------------------
(* Ledger vocabulary *)

NoCell == [bq |-> Zero, bp |-> Zero, bf |-> Zero,
           sq |-> Zero, sp |-> Zero, sf |-> Zero,
           split |-> One, cr |-> Zero, crf |-> Zero, ac |-> Zero]

C(s, d) == L[s][d]
BuyCostBase(s, a) == Add(Mul(C(s, a).bq, C(s, a).bp), C(s, a).bf)
SellGross(s, d) == Mul(C(s, d).sq, C(s, d).sp)
SameDayQ(s, d) == Min(C(s, d).sq, C(s, d).bq)
Factor(s, x) == C(s, x).split
\* net cost event of day e: accumulation raises, net capital return lowers
EventNet(s, e) == Sub(C(s, e).ac, Sub(C(s, e).cr, C(s, e).crf))
HasEvent(s, e) == ~IsZero(C(s, e).ac) \/ ~IsZero(C(s, e).cr)

\* q shares in day-d units are q * Ratio(s, d, a) shares in day-a units (d <= a).
Ratio(s, d, a) ==
  IF timing = "end"
  THEN ProdRange([x \in Days |-> Factor(s, x)], d, a - 1)
  ELSE ProdRange([x \in Days |-> Factor(s, x)], d + 1, a)

InWindow(d, a) == (DayNo[a] - DayNo[d]) \in 1..30

\* cost adjustment attached to acquisition day a by all events (under apportionment dd)
AdjOf(dd, s, a) == SumRange([e \in Days |-> dd[s][e][a]], 1, N)
Adj(s, a) == AdjOf(dist, s, a)
DayCost(s, a) == Add(BuyCostBase(s, a), Adj(s, a))
UnitCost(s, a) == Div(DayCost(s, a), C(s, a).bq)

\* Shares held at the start of day d (before that day's trades), in the units
\* current at that moment; closed form from the ledger alone.
RECURSIVE HeldStart(_, _)
HeldStart(s, d) ==
  IF d = 1 THEN Zero
  ELSE LET p == d - 1
           before == IF timing = "start"
                     THEN Mul(HeldStart(s, p), Factor(s, p)) ELSE HeldStart(s, p)
           after == Sub(Add(before, C(s, p).bq), C(s, p).sq)
       IN IF timing = "end" THEN Mul(after, Factor(s, p)) ELSE after
\* ... after the start-of-day split (if that is the timing) and the day's acquisitions
HeldForSale(s, d) ==
  Add(IF timing = "start" THEN Mul(HeldStart(s, d), Factor(s, d)) ELSE HeldStart(s, d),
      C(s, d).bq)
CoveredAt(s, d) == Le(C(s, d).sq, HeldForSale(s, d))
Covered == \A s \in Secs, d \in Days : CoveredAt(s, d)

-----------------------------------------------------------------------------
(* Validity of the cost pre-pass result (C03, C11) *)

\* (parameterised by the apportionment dd so that a candidate can be tested before it is adopted)
ValidDistForOf(dd, s, e) ==
  LET sum == SumRange(dd[s][e], 1, N) IN
  /\ \A a \in Days : (a > e \/ IsZero(C(s, a).bq)) => IsZero(dd[s][e][a])     \* never later acquisitions
  /\ \/ /\ IsPos(HeldStart(s, e))                                              \* shares held: takes effect in full
        /\ sum = EventNet(s, e)
     \/ /\ ~IsPos(HeldStart(s, e))                                             \* nothing held before the day:
        /\ \/ \A a \in Days : IsZero(dd[s][e][a])                              \*   ignored, or (if bought that day)
           \/ IsPos(C(s, e).bq) /\ sum = EventNet(s, e)                       \*   attached to that day's purchase
ValidDistOf(dd) == \A s \in Secs, e \in Days :
  IF HasEvent(s, e) THEN ValidDistForOf(dd, s, e) ELSE \A a \in Days : IsZero(dd[s][e][a])
ValidDist == ValidDistOf(dist)

\* C11: no acquisition day is left with negative allowable expenditure (then no leg and no
\* holding can have negative cost, because both are non-negative shares of day costs)
NonNegDistOf(dd) == \A s \in Secs, a \in Days :
  IsPos(C(s, a).bq) => ~IsNeg(Add(BuyCostBase(s, a), AdjOf(dd, s, a)))
NonNegDist == NonNegDistOf(dist)

\* C11: a net capital return larger than everything ever spent on the security up to that
\* day cannot be absorbed by any apportionment: the run must be refused (TCGA92 s122).
\* (The statement is one-directional; a smaller return may be accepted or refused.)
SpentUpTo(s, e) ==
  SumRange([a \in Days |-> IF a <= e /\ IsPos(C(s, a).bq) THEN BuyCostBase(s, a) ELSE Zero], 1, N)
NetEventsUpTo(s, e) ==
  SumRange([x \in Days |-> IF x <= e /\ IsPos(HeldStart(s, x)) THEN EventNet(s, x) ELSE Zero], 1, N)
MustRefuseAt(s, e) ==
  /\ HasEvent(s, e) /\ IsPos(HeldStart(s, e))
  /\ IsNeg(Add(SpentUpTo(s, e), NetEventsUpTo(s, e)))
MustRefuse == \E s \in Secs, e \in Days : MustRefuseAt(s, e)

-----------------------------------------------------------------------------
(* Slot sequencing *)

NextSlot == IF si < Len(SecSeq) THEN <<day, si + 1>> ELSE <<day + 1, 1>>
EnterPc(d, i) ==
  IF d > N THEN "done"
  ELSE LET s == SecSeq[i]
       IN IF timing = "start" /\ Factor(s, d) # One THEN "split0"
          ELSE IF IsPos(C(s, d).sq) THEN "check" ELSE "pool"

ZeroPool == [q |-> Zero, c |-> Zero]

InitWith(ledger, tm, dd, pc0) ==
  /\ L = ledger
  /\ timing = tm
  /\ dist = dd
  /\ day = 1 /\ si = 1
  /\ pc = pc0
  /\ pool = [s \in Secs |-> ZeroPool]
  /\ claimed = [s \in Secs |-> [a \in Days |-> Zero]]
  /\ hold = [s \in Secs |-> Zero]
  /\ rem = Zero
  /\ legs = <<>>
  /\ err = <<>>

Goto(slot) == /\ day' = slot[1] /\ si' = slot[2] /\ pc' = EnterPc(slot[1], slot[2])

-----------------------------------------------------------------------------
(* Actions *)

\* matcher/mod.rs process_sell, pre-cascade holding check (C05)
CheckHolding ==
  /\ pc = "check"
  /\ LET s == cur
         held == Add(hold[s], C(s, day).bq)
     IN IF Gt(C(s, day).sq, held)
        THEN /\ err' = <<s, day>> /\ pc' = "failed"
             /\ UNCHANGED <<L, timing, dist, day, si, pool, claimed, hold, rem, legs>>
        ELSE /\ rem' = C(s, day).sq /\ pc' = "sameday"
             /\ UNCHANGED <<L, timing, dist, day, si, pool, claimed, hold, legs, err>>

Leg(s, d, rule, a, q, cost) ==
  LET gross == Mul(q, C(s, d).sp)
      fee == Mul(C(s, d).sf, Div(q, C(s, d).sq))
      net == Sub(gross, fee)
  IN [s |-> s, d |-> d, rule |-> rule, a |-> a, q |-> q, cost |-> cost,
      gross |-> gross, net |-> net, gain |-> Sub(net, cost)]

\* same_day.rs: identify with the day's own acquisitions at their aggregate cost
SameDayLeg ==
  /\ pc = "sameday"
  /\ LET s == cur
         q == SameDayQ(s, day)
         r == Sub(rem, q)
     IN /\ legs' = IF IsPos(q)
                   THEN Append(legs, Leg(s, day, "SameDay", day, q, Mul(q, UnitCost(s, day))))
                   ELSE legs
        /\ rem' = r
        /\ pc' = IF IsPos(r) THEN "bnb" ELSE "pool"
  /\ UNCHANGED <<L, timing, dist, day, si, pool, claimed, hold, err>>

\* what day a's acquisition still offers to an earlier disposal (day-a units):
\* not needed for day a's own disposals, not already claimed
Avail(s, a) == Sub(Sub(C(s, a).bq, SameDayQ(s, a)), claimed[s][a])
BnbCands(s, d) == {a \in Days : a > d /\ InWindow(d, a) /\ IsPos(Avail(s, a))}

\* bed_and_breakfast.rs: one leg per later acquisition day, earliest first
BnbLeg ==
  /\ pc = "bnb"
  /\ LET s == cur
         cands == BnbCands(s, day)
     IN IF cands = {}
        THEN /\ pc' = "s104"
             /\ UNCHANGED <<L, timing, dist, day, si, pool, claimed, hold, rem, legs, err>>
        ELSE LET a == CHOOSE x \in cands : \A y \in cands : x <= y
                 ratio == Ratio(s, day, a)
                 m == Min(rem, Div(Avail(s, a), ratio))      \* in selling-day units
                 ma == Mul(m, ratio)                          \* in day-a units
                 r == Sub(rem, m)
             IN /\ legs' = Append(legs, Leg(s, day, "BedAndBreakfast", a, m, Mul(ma, UnitCost(s, a))))
                /\ claimed' = [claimed EXCEPT ![s][a] = Add(@, ma)]
                /\ rem' = r
                /\ pc' = IF IsPos(r) THEN "bnb" ELSE "pool"
                /\ UNCHANGED <<L, timing, dist, day, si, pool, hold, err>>

\* section104.rs: the rest comes out of the pooled holding at average cost
S104Leg ==
  /\ pc = "s104"
  /\ LET s == cur
         m == Min(rem, pool[s].q)
         cost == IF IsPos(m) THEN Mul(m, Div(pool[s].c, pool[s].q)) ELSE Zero
     IN /\ legs' = IF IsPos(m) THEN Append(legs, Leg(s, day, "Section104", 0, m, cost)) ELSE legs
        /\ pool' = [pool EXCEPT ![s] = [q |-> Sub(@.q, m), c |-> Sub(@.c, cost)]]
        /\ rem' = Sub(rem, m)
        /\ pc' = "pool"
  /\ UNCHANGED <<L, timing, dist, day, si, claimed, hold, err>>

\* mod.rs move_buy_to_pool: what the day's acquisition has left joins the pool
PoolRemainder ==
  /\ pc = "pool"
  /\ LET s == cur
         add == Sub(Sub(C(s, day).bq, SameDayQ(s, day)), claimed[s][day])
     IN /\ pool' = IF IsPos(add)
                   THEN [pool EXCEPT ![s] = [q |-> Add(@.q, add),
                                             c |-> Add(@.c, Mul(add, UnitCost(s, day)))]]
                   ELSE pool
        /\ hold' = [hold EXCEPT ![s] = Sub(Add(@, C(s, day).bq), C(s, day).sq)]
        /\ IF timing = "end" /\ Factor(s, day) # One
           THEN pc' = "split1" /\ UNCHANGED <<day, si>>
           ELSE Goto(NextSlot)
  /\ UNCHANGED <<L, timing, dist, claimed, rem, legs, err>>

\* mod.rs process_corporate_action: a split rescales share counts and nothing else (C10)
ApplySplit ==
  /\ pc \in {"split0", "split1"}
  /\ LET s == cur
         f == Factor(s, day)
     IN /\ pool' = [pool EXCEPT ![s].q = Mul(@, f)]
        /\ hold' = [hold EXCEPT ![s] = Mul(@, f)]
        /\ IF pc = "split0"
           THEN /\ pc' = IF IsPos(C(s, day).sq) THEN "check" ELSE "pool"
                /\ UNCHANGED <<day, si>>
           ELSE Goto(NextSlot)
  /\ UNCHANGED <<L, timing, dist, claimed, rem, legs, err>>

Next == CheckHolding \/ SameDayLeg \/ BnbLeg \/ S104Leg \/ PoolRemainder \/ ApplySplit

Terminated == pc \in {"done", "failed", "refused"}

-----------------------------------------------------------------------------
(* Properties.  All are state invariants of the design; the conformance     *)
(* harness then shows the implementation produces the same legs / holdings. *)

LegsOf(s, d) == SelectSeq(legs, LAMBDA g : g.s = s /\ g.d = d)
SumQ(ls) == SumRange([i \in 1..Len(ls) |-> ls[i].q], 1, Len(ls))
SumCost(ls) == SumRange([i \in 1..Len(ls) |-> ls[i].cost], 1, Len(ls))

\* C02: shares matched against one day's acquisition never exceed it
ClaimsWithinBought ==
  \A s \in Secs, a \in Days : /\ ~IsNeg(claimed[s][a])
                              /\ Le(Add(claimed[s][a], SameDayQ(s, a)), C(s, a).bq)

PoolNonNeg == \A s \in Secs : ~IsNeg(pool[s].q)

\* C05/C02: once the holding check passed, the cascade always finds the shares
S104Covers == pc = "s104" => Le(rem, pool[cur].q)

\* C02: legs of a disposal add up to the quantity sold
LegsSumToSold ==
  pc \in {"pool", "split1"} =>
     /\ IsZero(rem)
     /\ SumQ(LegsOf(cur, day)) = C(cur, day).sq

\* C05: what the check believes is held is what the ledger says is held
HoldIsClosedForm ==
  pc = "check" => Add(hold[cur], C(cur, day).bq) = HeldForSale(cur, day)

\* the pool plus nothing else: shares held = pooled shares minus shares already
\* promised to earlier disposals out of purchases not yet pooled
OutstandingClaims(s, d) ==
  SumRange([a \in Days |-> IF a >= d THEN Div(claimed[s][a], Ratio(s, d, a)) ELSE Zero], 1, N)
HoldDecomposition ==
  pc = "check" => hold[cur] = Sub(pool[cur].q, OutstandingClaims(cur, day))

\* C05: fails exactly at the first uncovered disposal
FailIffUncovered ==
  /\ pc = "failed" => /\ ~CoveredAt(err[1], err[2])
                      /\ \A d \in 1..(err[2] - 1), s \in Secs : CoveredAt(s, d)
  /\ pc = "done" => Covered

\* C01: rule order, earliest first, window edges
RuleRank(r) == CASE r = "SameDay" -> 1 [] r = "BedAndBreakfast" -> 2 [] OTHER -> 3
LegOrder ==
  \A i, j \in 1..Len(legs) :
    (i < j /\ legs[i].s = legs[j].s /\ legs[i].d = legs[j].d) =>
       /\ RuleRank(legs[i].rule) <= RuleRank(legs[j].rule)
       /\ (legs[i].rule = "BedAndBreakfast" /\ legs[j].rule = "BedAndBreakfast") => legs[i].a < legs[j].a
       /\ (legs[i].rule = legs[j].rule) => legs[i].rule = "BedAndBreakfast"
WindowEdge ==
  \A i \in 1..Len(legs) :
    /\ legs[i].rule = "BedAndBreakfast" => InWindow(legs[i].d, legs[i].a)
    /\ legs[i].rule = "SameDay" => legs[i].a = legs[i].d
    /\ IsPos(legs[i].q)
\* a Section 104 leg only when every in-window acquisition is exhausted or reserved
PoolOnlyWhenWindowExhausted ==
  pc = "s104" => BnbCands(cur, day) = {}

\* C11: no leg and no holding is ever reported with negative allowable cost
NoNegativeCost ==
  /\ \A i \in 1..Len(legs) : ~IsNeg(legs[i].cost)
  /\ \A s \in Secs : ~IsNeg(pool[s].c)

\* C03: every pound of expenditure is in exactly one place
CostConservedAtEnd ==
  pc = "done" =>
    \A s \in Secs :
      Add(SumCost(SelectSeq(legs, LAMBDA g : g.s = s)), pool[s].c)
        = SumRange([a \in Days |-> IF IsPos(C(s, a).bq) THEN DayCost(s, a) ELSE Zero], 1, N)

\* C02: closing holding = acquisitions - disposals, rescaled
ClosingHolding == pc = "done" => \A s \in Secs : pool[s].q = hold[s]

\* C10: a split moves no money
SplitMovesNoMoney ==
  [][(pc \in {"split0", "split1"}) => ((\A s \in Secs : pool'[s].c = pool[s].c) /\ legs' = legs)]_vars
\* C09: an action of one security leaves every other security untouched
OthersUntouched ==
  [][(\A s \in Secs : (s # cur) => (pool'[s] = pool[s] /\ claimed'[s] = claimed[s] /\ hold'[s] = hold[s]))]_vars
\* legs are append-only (a reported leg is never revised)
LegsAppendOnly ==
  [][(Len(legs') >= Len(legs) /\ SubSeq(legs', 1, Len(legs)) = legs)]_vars
=============================================================================
