------------------------------ MODULE Calendar ------------------------------
(***************************************************************************)
(* Proleptic Gregorian calendar on day numbers (1 = 0001-01-01, the same   *)
(* count as chrono's num_days_from_ce) and the UK tax year: the year Y/Y+1 *)
(* runs from 6 April Y to 5 April Y+1 inclusive (C07).                     *)
(***************************************************************************)
EXTENDS Integers, Sequences

CMod(a, b) == a - b * (a \div b)
IsLeap(y) == (CMod(y, 4) = 0 /\ CMod(y, 100) # 0) \/ CMod(y, 400) = 0
MonthLen(y, m) ==
  IF m = 2 THEN (IF IsLeap(y) THEN 29 ELSE 28)
  ELSE IF m \in {4, 6, 9, 11} THEN 30 ELSE 31
\* days before 1 January of year y
DaysBeforeYear(y) == 365 * (y - 1) + ((y - 1) \div 4) - ((y - 1) \div 100) + ((y - 1) \div 400)
RECURSIVE DaysBeforeMonth(_, _)
DaysBeforeMonth(y, m) == IF m = 1 THEN 0 ELSE DaysBeforeMonth(y, m - 1) + MonthLen(y, m - 1)
ValidYMD(y, m, d) == m \in 1..12 /\ d \in 1..MonthLen(y, m)
DayNumber(y, m, d) == DaysBeforeYear(y) + DaysBeforeMonth(y, m) + d

MinYear == 1890
MaxYear == 2110
YearOfDay(n) == CHOOSE y \in MinYear..MaxYear : DaysBeforeYear(y) < n /\ n <= DaysBeforeYear(y + 1)
Civil(n) ==
  LET y == YearOfDay(n)
      k == n - DaysBeforeYear(y)
      m == CHOOSE mm \in 1..12 : DaysBeforeMonth(y, mm) < k /\ k <= DaysBeforeMonth(y, mm) + MonthLen(y, mm)
  IN [y |-> y, m |-> m, d |-> k - DaysBeforeMonth(y, m)]

\* start year of the UK tax year containing day n
TaxYearOf(n) == LET y == YearOfDay(n) IN IF n >= DayNumber(y, 4, 6) THEN y ELSE y - 1
\* the tool supports tax years 1900/01 .. 2100/01; anything else is an error, never a guess
TaxYearSupported(Y) == Y >= 1900 /\ Y <= 2100
FirstDayOfTaxYear(Y) == DayNumber(Y, 4, 6)
LastDayOfTaxYear(Y) == DayNumber(Y + 1, 4, 5)
InTaxYear(n, Y) == FirstDayOfTaxYear(Y) <= n /\ n <= LastDayOfTaxYear(Y)
TaxYearLabel2(Y) == CMod(Y + 1, 100)      \* the "YY" of "YYYY/YY"
=============================================================================
