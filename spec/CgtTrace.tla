------------------------------ MODULE CgtTrace ------------------------------
(***************************************************************************)
(* Trace validation of the REAL matcher against Cgt.tla (P2 binding for    *)
(* C01, C02, C03, C05, C11).  The harness runs cgt_core's matcher, built   *)
(* with the `verif` hooks, on seeded random multi-security ledgers that    *)
(* are larger than anything the exhaustive models enumerate, and projects  *)
(* the recorded events on each security (securities are independent: C09). *)
(* Each projected trace must be a behaviour of Cgt with SecSeq = <<"SEC">>:*)
(*                                                                         *)
(*   Reset  ledger dist   new ledger; dist = the apportionment of cost     *)
(*                        events observed in the implementation's pre-pass *)
(*   Start                                                                 *)
(*   Sell   amount held   <-> CheckHolding   (held = shares held incl. the *)
(*                                            day's purchases)             *)
(*   Leg    rule a q cost <-> SameDayLeg / BnbLeg / S104Leg                *)
(*   Split  factor        <-> ApplySplit                                   *)
(*   DayEnd pool held     <-> end of the (day, security) slot              *)
(*   Fail                 <-> the run was refused at this security's sale  *)
(*   Abort                the run stopped because of ANOTHER security      *)
(*                                                                         *)
(* Specification steps that the implementation does not announce (empty    *)
(* day slots, a rule that matches nothing) are taken silently; they are    *)
(* deterministic, so the search stays linear in the trace length.  Every   *)
(* invariant of Cgt is evaluated in every state along the way.             *)
(***************************************************************************)
EXTENDS Cgt, TLC, Json, IOUtils

VARIABLE l
Ev == ndJsonDeserialize(IOEnv.TRACE)
tvars == <<vars, l>>
S == SecSeq[1]
\* the fixed day grid and the single (projected) security of recorded traces
TraceSecSeq == <<"SEC">>
TraceDayNo == <<0, 1, 2, 15, 30, 31, 32, 45, 61, 62>>
TraceN == 10

CellOf(c) == [bq |-> c[1], bp |-> c[2], bf |-> c[3], sq |-> c[4], sp |-> c[5], sf |-> c[6],
              split |-> c[7], ac |-> c[8], cr |-> c[9], crf |-> c[10]]
Has(e) == l <= Len(Ev) /\ Ev[l].event = e
Touched(d) == IsPos(C(S, d).bq) \/ IsPos(C(S, d).sq) \/ Factor(S, d) # One \/ HasEvent(S, d)

TReset ==
  /\ Has("Reset") /\ (l = 1 \/ pc \in {"done", "stopped"})
  /\ L' = [s \in Secs |-> [d \in Days |-> CellOf(Ev[l].ledger[d])]]
  /\ dist' = [s \in Secs |-> [e \in Days |-> [a \in Days |-> Ev[l].dist[e][a]]]]
  /\ timing' = "end" /\ day' = 1 /\ si' = 1 /\ pc' = "start"
  /\ pool' = [s \in Secs |-> ZeroPool] /\ claimed' = [s \in Secs |-> [a \in Days |-> Zero]]
  /\ hold' = [s \in Secs |-> Zero] /\ rem' = Zero /\ legs' = <<>> /\ err' = <<>>
  /\ l' = l + 1
TStart ==
  /\ Has("Start") /\ pc = "start"
  /\ (Ev[l - 1].accepted => ValidDist)   \* C11: what the pre-pass did is an admissible apportionment (accepted runs)
  /\ pc' = EnterPc(1, 1) /\ l' = l + 1
  /\ UNCHANGED <<L, timing, dist, day, si, pool, claimed, hold, rem, legs, err>>

\* announced steps
TSell ==
  /\ Has("Sell") /\ pc = "check"
  /\ Ev[l].amount = C(S, day).sq
  /\ Ev[l].held = Add(hold[S], C(S, day).bq)
  /\ CheckHolding /\ l' = l + 1
LegMatches(rule) ==
  /\ Len(legs') = Len(legs) + 1
  /\ LET g == legs'[Len(legs')] IN
       /\ g.rule = rule /\ Ev[l].rule = rule
       /\ Ev[l].a = g.a /\ Ev[l].q = g.q /\ Ev[l].cost = g.cost
       /\ Ev[l].gross = g.gross /\ Ev[l].net = g.net
TSameDay == /\ Has("Leg") /\ pc = "sameday" /\ IsPos(SameDayQ(S, day)) /\ SameDayLeg /\ LegMatches("SameDay") /\ l' = l + 1
TBnb == /\ Has("Leg") /\ pc = "bnb" /\ BnbCands(S, day) # {} /\ BnbLeg /\ LegMatches("BedAndBreakfast") /\ l' = l + 1
TS104 == /\ Has("Leg") /\ pc = "s104" /\ IsPos(Min(rem, pool[S].q)) /\ S104Leg /\ LegMatches("Section104") /\ l' = l + 1
DayEndMatches(k) ==
  /\ k <= Len(Ev) /\ Ev[k].event = "DayEnd"
  /\ Ev[k].pool_q = pool'[S].q /\ Ev[k].pool_c = pool'[S].c /\ Ev[k].held = hold'[S]
TSlotEnd ==      \* no split on this day: the slot ends with PoolRemainder
  /\ pc = "pool" /\ Factor(S, day) = One /\ Touched(day)
  /\ PoolRemainder /\ DayEndMatches(l) /\ l' = l + 1
TSplit ==        \* split day: ApplySplit ends the slot; the implementation announces Split, then DayEnd
  /\ Has("Split") /\ pc = "split1"
  /\ Ev[l].factor = Factor(S, day)
  /\ ApplySplit /\ DayEndMatches(l + 1) /\ l' = l + 2
TFail == /\ Has("Fail") /\ pc = "failed" /\ pc' = "stopped" /\ l' = l + 1
         /\ UNCHANGED <<L, timing, dist, day, si, pool, claimed, hold, rem, legs, err>>
TAbort == /\ Has("Abort") /\ pc \notin {"start", "failed", "stopped"} /\ pc' = "stopped" /\ l' = l + 1
          /\ UNCHANGED <<L, timing, dist, day, si, pool, claimed, hold, rem, legs, err>>

\* unannounced steps (nothing observable happens in the implementation)
Silent ==
  /\ \/ pc = "sameday" /\ ~IsPos(SameDayQ(S, day)) /\ SameDayLeg
     \/ pc = "bnb" /\ BnbCands(S, day) = {} /\ BnbLeg
     \/ pc = "s104" /\ ~IsPos(Min(rem, pool[S].q)) /\ S104Leg
     \/ pc = "pool" /\ Factor(S, day) # One /\ PoolRemainder
     \/ pc = "pool" /\ Factor(S, day) = One /\ ~Touched(day) /\ PoolRemainder
  /\ UNCHANGED l

TraceNext == TReset \/ TStart \/ TSell \/ TSameDay \/ TBnb \/ TS104 \/ TSlotEnd \/ TSplit \/ TFail \/ TAbort \/ Silent
TraceInit ==
  /\ l = 1 /\ pc = "stopped" /\ timing = "end" /\ day = 1 /\ si = 1
  /\ L = [s \in Secs |-> [d \in Days |-> NoCell]]
  /\ dist = [s \in Secs |-> [e \in Days |-> [a \in Days |-> Zero]]]
  /\ pool = [s \in Secs |-> ZeroPool] /\ claimed = [s \in Secs |-> [a \in Days |-> Zero]]
  /\ hold = [s \in Secs |-> Zero] /\ rem = Zero /\ legs = <<>> /\ err = <<>>
TraceSpec == TraceInit /\ [][TraceNext]_tvars

\* progress register: the furthest event reached (single worker, deterministic path)
Record == TLCSet(1, IF TLCGet(1) > l THEN TLCGet(1) ELSE l)
ASSUME TLCSet(1, 0)
TraceAccepted ==
  LET reached == TLCGet(1) IN
  IF reached = Len(Ev) + 1 THEN TRUE
  ELSE Print(<<"REJECTED_AT", reached, Ev[reached]>>, FALSE)

\* the invariants of Cgt that make sense mid-trace (pc = "start"/"stopped" are outside the machine)
InMachine == pc \notin {"start", "stopped"}
TClaimsWithinBought == InMachine => ClaimsWithinBought
TPoolNonNeg == InMachine => PoolNonNeg
TS104Covers == InMachine => S104Covers
TLegsSumToSold == InMachine => LegsSumToSold
THoldIsClosedForm == InMachine => HoldIsClosedForm
TFailIffUncovered == InMachine => FailIffUncovered
TLegOrder == InMachine => LegOrder
TWindowEdge == InMachine => WindowEdge
TCostConservedAtEnd == InMachine => CostConservedAtEnd
TNoNegativeCost == InMachine => NoNegativeCost
=============================================================================
