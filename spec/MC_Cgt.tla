------------------------------ MODULE MC_Cgt ------------------------------
(***************************************************************************)
(* Exhaustive / simulated model of Cgt: TLC enumerates every cell ledger   *)
(* of a bounded family as an initial state, runs the matcher actions with  *)
(* every invariant on, and prints one REPLAY line (input + the spec's      *)
(* outcome) per behaviour for the conformance harness.                     *)
(***************************************************************************)
EXTENDS Cgt, CgtConst, CgtGen, TLC, Json

CONSTANTS
  Timings,     \* admissible split-timing readings explored
  BuyQs,       \* quantities a buy cell may take (0 = no buy)
  SellQs,      \* quantities a sell cell may take (0 = no sell)
  QDen,        \* quantities are q / QDen (fractional shares when > 1)
  SplitKinds,  \* subset of 1..Len(SplitTable): split ratios that may occur
  MaxSplits,   \* 0..2 split cells per security
  EventKinds,  \* subset of 1..Len(EventTable): cost events that may occur
  MaxEvents,   \* 0..2 event cells per security
  DistGrid,    \* granularity with which an event amount may be spread over acquisition days
  MaxCells,    \* at most this many non-empty buy/sell cells per security (0 = unlimited)
  CheapDay,    \* 0, or the day slot whose purchases cost 1 a share (lots of very different unit cost)
  CoveredOnly, \* TRUE: the generator only proposes sales the holding covers (used by the random-walk tier,
               \* where unconstrained ledgers almost always fail at their first sale)
  Emit         \* TRUE: print a REPLAY line for every terminated behaviour

\* second security gets shifted prices
SecShift(s) == CHOOSE i \in 1..Len(SecSeq) : SecSeq[i] = s

BaseCells == [bq : BuyQs, sq : SellQs]
NonEmpty(g) == Cardinality({d \in 1..MC_N : g[d].bq # 0}) + Cardinality({d \in 1..MC_N : g[d].sq # 0})
BaseLedgers == {g \in [1..MC_N -> BaseCells] : MaxCells = 0 \/ NonEmpty(g) <= MaxCells}

\* placements of at most k marked days, each with a kind
Placements(kinds, k) ==
  LET none == [d \in 1..MC_N |-> 0]
      one == {[d \in 1..MC_N |-> IF d = x THEN r ELSE 0] : x \in 1..MC_N, r \in kinds}
      two == {[d \in 1..MC_N |-> IF d = x THEN r ELSE IF d = y THEN r2 ELSE 0] :
                 x \in 1..MC_N, y \in 1..MC_N, r \in kinds, r2 \in kinds}
  IN {none} \cup (IF k >= 1 THEN one ELSE {}) \cup (IF k >= 2 THEN two ELSE {})

MkCell(s, d, g, sp, ev) == GenCellOfC(SecShift(s) - 1, d, g[d].bq, g[d].sq, QDen, sp[d], ev[d], CheapDay)

MkSec(s, g, sp, ev) == [d \in 1..MC_N |-> MkCell(s, d, g, sp, ev)]

\* all ways to spread `amount` over the eligible acquisition days in DistGrid-ths
RECURSIVE Compositions(_, _)
Compositions(k, n) ==    \* sequences of n naturals summing to k
  IF n = 0 THEN (IF k = 0 THEN {<<>>} ELSE {})
  ELSE UNION {{<<h>> \o t : t \in Compositions(k - h, n - 1)} : h \in 0..k}

ZeroDist == [e \in 1..MC_N |-> [a \in 1..MC_N |-> Zero]]

\* choices for how day e's net cost event of security s may be spread: nothing (when the
\* event is ignored), or the net amount in DistGrid-ths over the acquisition days up to e
EligibleDays(s, e) == {a \in 1..MC_N : a <= e /\ IsPos(L[s][a].bq)}
RowChoices(s, e) ==
  LET el == EligibleDays(s, e)
      n == Cardinality(el)
      ord == CHOOSE f \in [1..n -> el] : \A i, j \in 1..n : i < j => f[i] < f[j]
      zeroRow == [a \in 1..MC_N |-> Zero]
  IN {zeroRow} \cup
     {[a \in 1..MC_N |->
         IF a \in el
         THEN Mul(EventNet(s, e), Norm(comp[CHOOSE i \in 1..n : ord[i] = a], DistGrid))
         ELSE Zero] : comp \in Compositions(DistGrid, n)}
EventPairs == {p \in Secs \X (1..MC_N) : HasEvent(p[1], p[2])}

(* Generator: the ledger is built cell by cell (so TLC's workers share the   *)
(* enumeration), then the cost pre-pass picks an admissible apportionment,  *)
(* then the matcher runs.                                                   *)

GenSlotNext == IF si < Len(SecSeq) THEN <<day, si + 1>> ELSE <<day + 1, 1>>
NonEmptyCount(s) == Cardinality({d \in 1..MC_N : IsPos(L[s][d].bq)}) + Cardinality({d \in 1..MC_N : IsPos(L[s][d].sq)})

MCInit ==
  \E sps \in [Secs -> Placements(SplitKinds, MaxSplits)],
     evs \in [Secs -> Placements(EventKinds, MaxEvents)],
     tm \in Timings :
    /\ InitWith([s \in Secs |-> MkSec(s, [d \in 1..MC_N |-> [bq |-> 0, sq |-> 0]], sps[s], evs[s])],
                tm, [s \in Secs |-> ZeroDist], "gen")

GenCell ==
  /\ pc = "gen"
  /\ \E b \in BaseCells :
       LET s == cur
           c0 == L[s][day]
           c1 == MkCell(s, day, [d \in 1..MC_N |-> b], [d \in 1..MC_N |-> 0], [d \in 1..MC_N |-> 0])
           cell == [c1 EXCEPT !.split = c0.split, !.ac = c0.ac, !.cr = c0.cr, !.crf = c0.crf]
           used == NonEmptyCount(s) + (IF b.bq # 0 THEN 1 ELSE 0) + (IF b.sq # 0 THEN 1 ELSE 0)
       IN /\ MaxCells = 0 \/ used <= MaxCells
          /\ CoveredOnly => Le(cell.sq, Add(IF timing = "start" THEN Mul(HeldStart(s, day), c0.split) ELSE HeldStart(s, day), cell.bq))
          /\ L' = [L EXCEPT ![s][day] = cell]
  /\ LET nx == GenSlotNext
     IN IF nx[1] > MC_N
        THEN pc' = "prepass" /\ day' = 1 /\ si' = 1
        ELSE pc' = "gen" /\ day' = nx[1] /\ si' = nx[2]
  /\ UNCHANGED <<timing, dist, pool, claimed, hold, rem, legs, err>>

\* matcher/mod.rs compute_cost_offsets: the whole-timeline pre-pass (named deviation)
PrePass ==
  /\ pc = "prepass"
  /\ UNCHANGED <<L, timing, day, si, pool, claimed, hold, rem, legs>>
  /\ IF MustRefuse
     THEN /\ pc' = "refused"
          /\ err' = (CHOOSE p \in Secs \X Days : MustRefuseAt(p[1], p[2]))
          /\ UNCHANGED dist
     ELSE /\ \E ch \in [EventPairs -> UNION {RowChoices(p[1], p[2]) : p \in EventPairs}] :
               LET dd == [s \in Secs |-> [e \in 1..MC_N |->
                             IF <<s, e>> \in EventPairs THEN ch[<<s, e>>] ELSE [a \in 1..MC_N |-> Zero]]]
               IN /\ \A p \in EventPairs : ch[p] \in RowChoices(p[1], p[2])
                  /\ ValidDistOf(dd)
                  /\ NonNegDistOf(dd)
                  /\ dist' = dd
          /\ pc' = EnterPc(1, 1)
          /\ UNCHANGED err

MCNext == GenCell \/ PrePass \/ Next
MCSpec == MCInit /\ [][MCNext]_vars

-----------------------------------------------------------------------------
(* REPLAY emission: one line per terminated behaviour (compact arrays) *)

CellArr(c) == <<c.bq, c.bp, c.bf, c.sq, c.sp, c.sf, c.split, c.ac, c.cr, c.crf>>
LegArr(g) == <<g.s, g.d, g.rule, g.a, g.q, g.cost, g.gross, g.net, g.gain>>
HasDist == \E s \in Secs, e \in 1..MC_N, a \in 1..MC_N : ~IsZero(dist[s][e][a])
Outcome ==
  [days |-> MC_DayNo, secs |-> SecSeq, timing |-> timing,
   ledger |-> [i \in 1..Len(SecSeq) |-> [d \in 1..MC_N |-> CellArr(L[SecSeq[i]][d])]],
   dist |-> IF HasDist THEN [i \in 1..Len(SecSeq) |-> dist[SecSeq[i]]] ELSE <<>>,
   status |-> IF pc = "done" THEN "ok" ELSE IF pc = "refused" THEN "refused" ELSE "error",
   err |-> err,
   uncovered |-> IF pc = "failed"
                 THEN {s \in Secs : ~CoveredAt(s, err[2])} ELSE {},
   legs |-> [i \in 1..Len(legs) |-> LegArr(legs[i])],
   pool |-> [i \in 1..Len(SecSeq) |-> <<pool[SecSeq[i]].q, pool[SecSeq[i]].c>>]]

EmitReplay == (Emit /\ Terminated) => PrintT(<<"REPLAY", ToJson(Outcome)>>)

\* vacuity guards: the interesting shapes do occur (checked by the driver via -coverage / counters)
=============================================================================
