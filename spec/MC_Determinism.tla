---------------------------- MODULE MC_Determinism ----------------------------
(* Key sets for C16: tickers that are proper prefixes of one another, tickers differing in the *)
(* last letter only, several disposals per date over several tax years.  TLC checks that each  *)
(* comparator is a strict total order on every key set (so every hash order sorts to the same  *)
(* output) and prints the canonical orders for the harness (DET lines).  A deliberately broken *)
(* comparator (prefixes compare equal) is shown NOT to be deterministic (self-test).           *)
EXTENDS Determinism, TLC, Json

\* letter codes: A=1 .. Z=26
GOOG == <<7, 15, 15, 7>>          GOOGL == <<7, 15, 15, 7, 12>>
BRK == <<2, 18, 11>>              BRKB == <<2, 18, 11, 2>>
AAA == <<1, 1, 1>>                AAB == <<1, 1, 2>>
ZED == <<26, 5, 4>>               Z == <<26>>
\* long identifiers (ISIN-like, 12 letters) of one provider's funds: equal in their first 8 / 11 letters
FUNDA == <<7, 2, 1, 1, 2, 4, 3, 18, 26, 1, 4, 5>>     \* GBAABDCRZADE
FUNDB == <<7, 2, 1, 1, 2, 4, 3, 18, 26, 2, 5, 1>>     \* GBAABDCRZBEA
FUNDC == <<7, 2, 1, 1, 2, 4, 3, 18, 1, 26, 26, 26>>   \* GBAABDCRAZZZ
FUNDD == <<7, 2, 1, 1, 2, 4, 3, 18, 26, 1, 4, 6>>     \* GBAABDCRZADF
TickerSets == { {GOOG, GOOGL, AAA}, {BRK, BRKB, ZED, Z}, {AAA, AAB, GOOGL, GOOG, Z}, {GOOG, GOOGL, BRK, BRKB, AAA, AAB, ZED, Z},
                {FUNDA, FUNDB, FUNDC, FUNDD, AAA} }
\* day offsets of the disposals (from 1 March 2021): two days in 2020/21, one just after 5 April, two later years
DateSets == { {10, 40}, {10, 36, 400}, {10, 36, 37, 400, 800} }

KeysOf(ts, ds) == ds \X ts
Sites == {[tickers |-> ts, dates |-> ds] : ts \in TickerSets, ds \in DateSets}

AllDeterministic ==
  \A st \in Sites :
    /\ StrictTotal(st.tickers, LexLess)
    /\ StrictTotal(KeysOf(st.tickers, st.dates), DispLess)
ASSUME AllDeterministic
\* small sites also by brute force over every hash order
SmallSitesByEnumeration ==
  \A st \in {s \in Sites : Cardinality(s.tickers) * Cardinality(s.dates) <= 6} :
    Deterministic(KeysOf(st.tickers, st.dates), DispLess) /\ Deterministic(st.tickers, LexLess)
ASSUME SmallSitesByEnumeration
\* self-test: a comparator under which a proper prefix ties with the longer ticker is not deterministic
PrefixTieLess(a, b) == LexLess(a, b) /\ ~(SubSeq(b, 1, Len(a)) = a /\ Len(a) <= Len(b))
BrokenComparatorDetected == ~Deterministic({GOOG, GOOGL, AAA}, PrefixTieLess)
ASSUME BrokenComparatorDetected
\* self-test: so is a comparator that looks at the first 8 letters only
Head8(a) == SubSeq(a, 1, IF Len(a) < 8 THEN Len(a) ELSE 8)
Trunc8Less(a, b) == LexLess(Head8(a), Head8(b))
TruncatedComparatorDetected == ~Deterministic({FUNDA, FUNDB, AAA}, Trunc8Less)
ASSUME TruncatedComparatorDetected

RECURSIVE SortedSeq(_, _)
SortedSeq(S, dummy) ==     \* ascending sequence of a set of ticker sequences under LexLess
  IF S = {} THEN <<>> ELSE LET m == CHOOSE x \in S : \A y \in S : y = x \/ LexLess(x, y) IN <<m>> \o SortedSeq(S \ {m}, dummy)
RECURSIVE SortedDisp(_)
SortedDisp(S) ==
  IF S = {} THEN <<>> ELSE LET m == CHOOSE x \in S : \A y \in S : y = x \/ DispLess(x, y) IN <<m>> \o SortedDisp(S \ {m})
Emit ==
  \A st \in Sites :
    PrintT(<<"DET", ToJson([tickers |-> SortedSeq(st.tickers, 0), disposals |-> SortedDisp(KeysOf(st.tickers, st.dates))])>>)
ASSUME Emit

VARIABLE dummy
Init == dummy = 0
Next == UNCHANGED dummy
Spec == Init /\ [][Next]_dummy
=============================================================================
