------------------------------- MODULE Matcher -------------------------------
(***************************************************************************)
(* An IMPLEMENTATION-SHAPED model of crates/cgt-core/src/matcher for one   *)
(* security: the data structures and passes of the Rust code, not the      *)
(* abstract rule.                                                          *)
(*                                                                         *)
(*   pre-pass  (compute_cost_offsets): a lot per acquisition day with      *)
(*             `consumed`; a day's events first (CAPRETURN: s122 guards,   *)
(*             then apportionment by shares still held; ACCUMULATION),     *)
(*             then the day's buy, then the day's sale consumed same-day   *)
(*             first and FIFO from earlier lots, then the split rescales   *)
(*             every lot;                                                  *)
(*   main pass (process): AddBuy (with the reservations earlier disposals  *)
(*             left in `future_consumption`), the two holding checks,      *)
(*             same-day match, the 30-day look-ahead scanning later days   *)
(*             in order with a running split ratio and the same-day        *)
(*             reservation of each purchase day, Section 104, the          *)
(*             post-cascade remainder check, move-to-pool, split.          *)
(*                                                                         *)
(* MC_Matcher runs this machine and then the abstract machine Cgt on the   *)
(* same ledger, with Cgt's open apportionment `dist` bound to what THIS    *)
(* pre-pass produced, and checks the refinement: same acceptance, same     *)
(* legs, same pools; and that the pre-pass result is an admissible         *)
(* apportionment (ValidDist) that leaves no cost negative.                 *)
(***************************************************************************)
EXTENDS Integers, Sequences, FiniteSets, Rat

CONSTANTS N, DayNo
Days == 1..N

VARIABLES
  ML,       \* ledger of the security: [Days -> Cell] (same cell records as Cgt)
  mpc, mday,
  \* pre-pass
  plot,     \* [Days -> [amt, consumed, cost]] lots of the pre-pass (cost = base cost, fixed)
  poff,     \* [Days -> [Days -> Rat]] poff[e][a] = adjustment day e's events put on lot a
  \* main pass
  lot,      \* [Days -> [amt, consumed, reserved, inpool]]
  fut,      \* [Days -> Rat] future_consumption: claims on purchases not yet added
  mpool, mheld, mrem, mlegs, merr,
  k, cum    \* look-ahead cursor and running split ratio
mvars == <<ML, mpc, mday, plot, poff, lot, fut, mpool, mheld, mrem, mlegs, merr, k, cum>>

MC(d) == ML[d]
Fac(d) == MC(d).split
Base(d) == Add(Mul(MC(d).bq, MC(d).bp), MC(d).bf)
NetReturn(d) == Sub(MC(d).cr, MC(d).crf)
OffsetOf(a) == SumRange([e \in Days |-> poff[e][a]], 1, N)
UnitCostM(a) == Div(Add(Base(a), OffsetOf(a)), MC(a).bq)
ZeroLot == [amt |-> Zero, consumed |-> Zero, reserved |-> Zero, inpool |-> Zero]
ZeroPLot == [amt |-> Zero, consumed |-> Zero]

MInit(ledger) ==
  /\ ML = ledger /\ mpc = "p_events" /\ mday = 1
  /\ plot = [a \in Days |-> ZeroPLot] /\ poff = [e \in Days |-> [a \in Days |-> Zero]]
  /\ lot = [a \in Days |-> ZeroLot] /\ fut = [a \in Days |-> Zero]
  /\ mpool = [q |-> Zero, c |-> Zero] /\ mheld = Zero /\ mrem = Zero /\ mlegs = <<>> /\ merr = <<>>
  /\ k = 1 /\ cum = One

-----------------------------------------------------------------------------
(* pre-pass *)
PHeld(a) == Sub(plot[a].amt, plot[a].consumed)
PTotalHeld == SumRange([a \in Days |-> PHeld(a)], 1, N)
\* adjusted cost of a lot so far (before the event being applied): base + offsets of earlier event days
PAdj(a, e) == Add(Base(a), SumRange([x \in Days |-> IF x < e THEN poff[x][a] ELSE Zero], 1, N))
\* cost of the shares still held: each lot's cost in proportion to what is left of it
PBasis(e) == SumRange([a \in Days |-> IF IsPos(PHeld(a)) THEN Mul(Div(PAdj(a, e), plot[a].amt), PHeld(a)) ELSE Zero], 1, N)
PShare(amount, a) == Mul(amount, Div(PHeld(a), PTotalHeld))
PCanAbsorb(amount, e) == \A a \in Days : IsPos(PHeld(a)) => Le(PShare(amount, a), PAdj(a, e))
HasLedger == \E a \in Days : IsPos(plot[a].amt)         \* a ledger exists for the ticker once something was bought

PEvents ==
  /\ mpc = "p_events"
  /\ LET e == mday
         net == NetReturn(e)
         hasCr == ~IsZero(MC(e).cr)
         refuse == hasCr /\ HasLedger /\ (Gt(net, PBasis(e)) \/ (IsPos(PTotalHeld) /\ ~PCanAbsorb(net, e)))
     IN IF refuse
        THEN /\ mpc' = "refused" /\ merr' = <<e>> /\ UNCHANGED poff
        ELSE /\ poff' = [poff EXCEPT ![e] = [a \in Days |->
                  IF IsPos(PTotalHeld) /\ IsPos(PHeld(a))
                  THEN Add(IF hasCr THEN Neg(PShare(net, a)) ELSE Zero, IF ~IsZero(MC(e).ac) THEN PShare(MC(e).ac, a) ELSE Zero)
                  ELSE Zero]]
             /\ mpc' = "p_trade" /\ UNCHANGED merr
  /\ UNCHANGED <<ML, mday, plot, lot, fut, mpool, mheld, mrem, mlegs, k, cum>>

\* the day's buy is added, then the day's sale consumes same-day shares first and earlier lots FIFO
RECURSIVE Fifo(_, _, _)
Fifo(pl, a, need) ==        \* consume `need` from lots a, a+1, .. < mday
  IF a >= mday \/ ~IsPos(need) THEN pl
  ELSE LET av == Sub(pl[a].amt, pl[a].consumed)
           take == Min(need, av)
       IN IF IsPos(av) THEN Fifo([pl EXCEPT ![a].consumed = Add(@, take)], a + 1, Sub(need, take))
          ELSE Fifo(pl, a + 1, need)
PTrade ==
  /\ mpc = "p_trade"
  /\ LET d == mday
         p1 == IF IsPos(MC(d).bq) THEN [plot EXCEPT ![d] = [amt |-> MC(d).bq, consumed |-> Zero]] ELSE plot
         sameAv == Sub(p1[d].amt, p1[d].consumed)
         m == IF IsPos(sameAv) THEN Min(MC(d).sq, sameAv) ELSE Zero
         p2 == [p1 EXCEPT ![d].consumed = Add(@, m)]
         p3 == IF IsPos(MC(d).sq) /\ (\E a \in Days : IsPos(p1[a].amt)) THEN Fifo(p2, 1, Sub(MC(d).sq, m)) ELSE p1
         f == Fac(d)
     IN /\ plot' = [a \in Days |-> [amt |-> Mul(p3[a].amt, f), consumed |-> Mul(p3[a].consumed, f)]]
  /\ IF mday < N THEN mday' = mday + 1 /\ mpc' = "p_events"
     ELSE mday' = 1 /\ mpc' = "m_buy"
  /\ UNCHANGED <<ML, poff, lot, fut, mpool, mheld, mrem, mlegs, merr, k, cum>>

-----------------------------------------------------------------------------
(* main pass *)
Avail(a) == Sub(Sub(Sub(lot[a].amt, lot[a].consumed), lot[a].reserved), lot[a].inpool)
MLeg(d, rule, a, q, cost) ==
  LET gross == Mul(q, MC(d).sp)
      net == Sub(gross, Mul(MC(d).sf, Div(q, MC(d).sq)))
  IN [s |-> "SEC", d |-> d, rule |-> rule, a |-> a, q |-> q, cost |-> cost, gross |-> gross, net |-> net, gain |-> Sub(net, cost)]

MBuy ==
  /\ mpc = "m_buy"
  /\ IF IsPos(MC(mday).bq)
     THEN IF Gt(fut[mday], MC(mday).bq)
          THEN mpc' = "failed" /\ merr' = <<mday>> /\ UNCHANGED <<lot, mheld>>
          ELSE /\ lot' = [lot EXCEPT ![mday] = [amt |-> MC(mday).bq, consumed |-> Zero, reserved |-> fut[mday], inpool |-> Zero]]
               /\ mheld' = Add(mheld, MC(mday).bq)
               /\ mpc' = "m_sell" /\ UNCHANGED merr
     ELSE mpc' = "m_sell" /\ UNCHANGED <<lot, mheld, merr>>
  /\ UNCHANGED <<ML, mday, plot, poff, fut, mpool, mrem, mlegs, k, cum>>

MSell ==
  /\ mpc = "m_sell"
  /\ IF ~IsPos(MC(mday).sq) THEN mpc' = "m_pool" /\ UNCHANGED <<mheld, mrem, merr>>
     ELSE IF Gt(MC(mday).sq, Add(Avail(mday), mpool.q)) \/ Gt(MC(mday).sq, mheld)
          THEN mpc' = "failed" /\ merr' = <<mday>> /\ UNCHANGED <<mheld, mrem>>
          ELSE /\ mheld' = Sub(mheld, MC(mday).sq) /\ mrem' = MC(mday).sq
               /\ mpc' = "m_sameday" /\ UNCHANGED merr
  /\ UNCHANGED <<ML, mday, plot, poff, lot, fut, mpool, mlegs, k, cum>>

MSameDay ==
  /\ mpc = "m_sameday"
  /\ LET av == Avail(mday)
         m == Min(mrem, av)
     IN IF IsPos(av) /\ IsPos(mrem)
        THEN /\ lot' = [lot EXCEPT ![mday].consumed = Add(@, m)]
             /\ mlegs' = Append(mlegs, MLeg(mday, "SameDay", mday, m, Mul(m, UnitCostM(mday))))
             /\ mrem' = Sub(mrem, m)
        ELSE UNCHANGED <<lot, mlegs, mrem>>
  \* the look-ahead starts after the sale line; a split dated on the sale day is already in the ratio
  /\ k' = mday + 1 /\ cum' = Fac(mday) /\ mpc' = "m_scan"
  /\ UNCHANGED <<ML, mday, plot, poff, fut, mpool, mheld, merr>>

MScan ==
  /\ mpc = "m_scan"
  /\ IF ~IsPos(mrem) \/ k > N \/ (DayNo[k] - DayNo[mday]) > 30
     THEN mpc' = "m_s104" /\ UNCHANGED <<fut, mlegs, mrem, k, cum>>
     ELSE LET before == Sub(MC(k).bq, fut[k])
              reserve == Min(before, MC(k).sq)           \* that day's own disposals come first
              av == Sub(before, reserve)
              msell == Min(mrem, Div(av, cum))
              mbuy == Min(Mul(msell, cum), av)
          IN /\ IF IsPos(MC(k).bq) /\ IsPos(before) /\ IsPos(av) /\ IsPos(msell)
                THEN /\ mlegs' = Append(mlegs, MLeg(mday, "BedAndBreakfast", k, msell, Mul(mbuy, UnitCostM(k))))
                     /\ mrem' = Sub(mrem, msell)
                     /\ fut' = [fut EXCEPT ![k] = Add(@, mbuy)]
                ELSE UNCHANGED <<mlegs, mrem, fut>>
             /\ cum' = Mul(cum, Fac(k)) /\ k' = k + 1 /\ UNCHANGED mpc
  /\ UNCHANGED <<ML, mday, plot, poff, lot, mpool, mheld, merr>>

MS104 ==
  /\ mpc = "m_s104"
  /\ LET m == IF IsPos(mrem) /\ IsPos(mpool.q) THEN Min(mrem, mpool.q) ELSE Zero
         cost == IF IsPos(m) THEN Mul(m, Div(mpool.c, mpool.q)) ELSE Zero
         left == Sub(mrem, m)
     IN /\ IF IsPos(m) THEN /\ mlegs' = Append(mlegs, MLeg(mday, "Section104", 0, m, cost))
                           /\ mpool' = [q |-> Sub(mpool.q, m), c |-> Sub(mpool.c, cost)]
                      ELSE UNCHANGED <<mlegs, mpool>>
        /\ mrem' = left
        /\ IF IsPos(left) THEN mpc' = "failed" /\ merr' = <<mday>> ELSE mpc' = "m_pool" /\ UNCHANGED merr
  /\ UNCHANGED <<ML, mday, plot, poff, lot, fut, mheld, k, cum>>

MPool ==
  /\ mpc = "m_pool"
  /\ LET r == Avail(mday) IN
       IF IsPos(MC(mday).bq) /\ IsPos(r)
       THEN /\ mpool' = [q |-> Add(mpool.q, r), c |-> Add(mpool.c, Mul(r, UnitCostM(mday)))]
            /\ lot' = [lot EXCEPT ![mday].inpool = Add(@, r)]
       ELSE UNCHANGED <<mpool, lot>>
  /\ mpc' = "m_split"
  /\ UNCHANGED <<ML, mday, plot, poff, fut, mheld, mrem, mlegs, merr, k, cum>>

MSplit ==
  /\ mpc = "m_split"
  /\ mpool' = [mpool EXCEPT !.q = Mul(@, Fac(mday))]
  /\ mheld' = Mul(mheld, Fac(mday))
  /\ IF mday < N THEN mday' = mday + 1 /\ mpc' = "m_buy" ELSE mpc' = "done" /\ UNCHANGED mday
  /\ UNCHANGED <<ML, plot, poff, lot, fut, mrem, mlegs, merr, k, cum>>

MNext == PEvents \/ PTrade \/ MBuy \/ MSell \/ MSameDay \/ MScan \/ MS104 \/ MPool \/ MSplit
MTerminated == mpc \in {"done", "failed", "refused"}

-----------------------------------------------------------------------------
(* invariants of the implementation's own bookkeeping *)
LotsConsistent ==
  \A a \in Days : /\ ~IsNeg(lot[a].consumed) /\ ~IsNeg(lot[a].reserved) /\ ~IsNeg(lot[a].inpool)
                  /\ ~IsNeg(Avail(a))
\* the reservation an earlier disposal leaves on a purchase never exceeds what that purchase offers
ReservationsFit == \A a \in Days : Le(Add(fut[a], Min(MC(a).sq, MC(a).bq)), MC(a).bq) \/ ~IsPos(MC(a).bq)
=============================================================================
