--------------------------------- MODULE Fx ---------------------------------
(***************************************************************************)
(* Foreign-exchange handling (C08) as a state machine:                     *)
(*   load phase   : the bundled HMRC monthly rates, then every *.xml file  *)
(*                  of the user's rates folder in modification-time order; *)
(*                  a file whose Period disagrees with its name, or that   *)
(*                  lists a non-positive rate, is rejected and the run     *)
(*                  fails; an accepted file replaces exactly the           *)
(*                  (currency, month) keys it lists;                       *)
(*   convert phase: every money field of every transaction, in order, is   *)
(*                  looked up under (its currency, the month of ITS OWN    *)
(*                  transaction date); GBP needs no rate; a missing key    *)
(*                  fails the run naming currency and month.               *)
(* The table maps keys to the SOURCE of the rate in force (0 = bundled,    *)
(* i > 0 = folder file i); numbers are the harness's business.             *)
(***************************************************************************)
EXTENDS Integers, Sequences, FiniteSets

CONSTANTS
  BundledKeys    \* set of <<currency, <<year, month>>>> keys present in the bundled rates

VARIABLES
  files,         \* sequence of folder files (records), in directory order (irrelevant); fixed for a behaviour
  fields,        \* sequence of money fields [cur, ym, what] in transaction order; fixed for a behaviour
  table, queue, phase, pos, result
fxvars == <<files, fields, table, queue, phase, pos, result>>
Files == files
Fields == fields

FileKeys(f) == {<<r[1], f.period>> : r \in f.rates}
Bad(f) == f.name # f.period \/ \E r \in f.rates : r[2] # "pos"
IsXml(f) == f.ext = "xml"

\* files sorted by modification time (ties cannot occur in the models)
SortedByMtimeOf(fs) ==
  LET n == Len(fs)
      idx == CHOOSE p \in [1..n -> 1..n] :
               /\ \A i, j \in 1..n : i # j => p[i] # p[j]
               /\ \A i, j \in 1..n : i < j => fs[p[i]].mtime < fs[p[j]].mtime
  IN [i \in 1..n |-> fs[idx[i]]]

FxInit(fs, fds) ==
  /\ files = fs
  /\ fields = fds
  /\ table = [k \in BundledKeys |-> 0]
  /\ queue = SortedByMtimeOf(fs)
  /\ phase = "load"
  /\ pos = 1
  /\ result = <<"running">>

\* loader.rs load_cache_with_folder_files, one file per step
SkipNonXml ==
  /\ phase = "load" /\ queue # <<>> /\ ~IsXml(Head(queue))
  /\ queue' = Tail(queue)
  /\ UNCHANGED <<table, phase, pos, result>>
RejectFile ==
  /\ phase = "load" /\ queue # <<>> /\ IsXml(Head(queue)) /\ Bad(Head(queue))
  /\ phase' = "done" /\ result' = <<"rejected", Head(queue).id>>
  /\ UNCHANGED <<table, queue, pos>>
AcceptFile ==
  /\ phase = "load" /\ queue # <<>> /\ IsXml(Head(queue)) /\ ~Bad(Head(queue))
  /\ LET f == Head(queue) IN
       table' = [k \in (DOMAIN table) \cup FileKeys(f) |-> IF k \in FileKeys(f) THEN f.id ELSE table[k]]
  /\ queue' = Tail(queue)
  /\ UNCHANGED <<phase, pos, result>>
EndLoad ==
  /\ phase = "load" /\ queue = <<>>
  /\ phase' = "convert"
  /\ UNCHANGED <<table, queue, pos, result>>

\* models.rs amount_to_gbp, one field per step
KeyOf(fd) == <<fd.cur, fd.ym>>
ConvertField ==
  /\ phase = "convert" /\ pos <= Len(Fields)
  /\ LET fd == Fields[pos] IN
       IF fd.cur = "GBP" \/ KeyOf(fd) \in DOMAIN table
       THEN pos' = pos + 1 /\ UNCHANGED <<phase, result>>
       ELSE phase' = "done" /\ result' = <<"missing", fd.cur, fd.ym>> /\ UNCHANGED pos
  /\ UNCHANGED <<table, queue>>
Finish ==
  /\ phase = "convert" /\ pos > Len(Fields)
  /\ phase' = "done" /\ result' = <<"ok">>
  /\ UNCHANGED <<table, queue, pos>>

FxNext == (SkipNonXml \/ RejectFile \/ AcceptFile \/ EndLoad \/ ConvertField \/ Finish) /\ UNCHANGED <<files, fields>>

\* which source converts field i (0 bundled, i file, -1 no conversion needed)
SourceOf(fd) == IF fd.cur = "GBP" THEN -1 ELSE table[KeyOf(fd)]

-----------------------------------------------------------------------------
\* a folder file replaces exactly the keys it lists and nothing else
OverrideIsLocal ==
  [][\A k \in DOMAIN table : (queue # <<>> /\ k \notin FileKeys(Head(queue))) => (k \in DOMAIN table' /\ table'[k] = table[k])]_fxvars
\* a rate is on offer only for keys that the bundled tables or some folder file list under that very code and month:
\* no key is ever invented (a code HMRC withdrew is not its successor; what is not listed makes the run fail)
OnlyListedKeys == DOMAIN table \subseteq BundledKeys \cup UNION {FileKeys(Files[i]) : i \in 1..Len(Files)}
\* no key ever disappears
TableGrows == [][DOMAIN table \subseteq DOMAIN table']_fxvars
\* the file with the latest modification time among the accepted files listing a key supplies it
LatestWins ==
  phase # "load" /\ result[1] # "rejected" =>
    \A k \in DOMAIN table :
      LET listing == {i \in 1..Len(Files) : IsXml(Files[i]) /\ k \in FileKeys(Files[i])} IN
      IF listing = {} THEN table[k] = 0
      ELSE table[k] = Files[CHOOSE i \in listing : \A j \in listing : Files[j].mtime <= Files[i].mtime].id
\* the run is rejected iff some xml file is bad
RejectIffBad ==
  phase = "done" => ((result[1] = "rejected") <=> (\E i \in 1..Len(Files) : IsXml(Files[i]) /\ Bad(Files[i])))
\* a successful run used, for every foreign field, a key of the field's own currency and own month
OwnMonth ==
  (phase = "done" /\ result[1] = "ok") =>
    \A i \in 1..Len(Fields) : Fields[i].cur # "GBP" => <<Fields[i].cur, Fields[i].ym>> \in DOMAIN table
\* failure names the first field (in order) whose key is absent
MissingIsFirst ==
  (phase = "done" /\ result[1] = "missing") =>
    \E i \in 1..Len(Fields) :
      /\ Fields[i].cur = result[2] /\ Fields[i].ym = result[3] /\ KeyOf(Fields[i]) \notin DOMAIN table
      /\ \A j \in 1..(i - 1) : Fields[j].cur = "GBP" \/ KeyOf(Fields[j]) \in DOMAIN table
=============================================================================
