------------------------------- MODULE Awards -------------------------------
(***************************************************************************)
(* RSU vest look-up (C19).  The awards file is a sequence of entries       *)
(* [date, sym, details], each detail carrying a vest-date market value     *)
(* (with its own vest date, or the entry's date when absent) or only a     *)
(* fallback price.  Within one entry a vest-date value beats the fallback. *)
(* A deposit on day dep of symbol s is dated and priced from the entry     *)
(* whose date is the greatest in dep-7 .. dep; otherwise the conversion    *)
(* fails naming the symbol and the date.  Symbols compare case-            *)
(* insensitively (they are upper-cased here by the generator).             *)
(***************************************************************************)
EXTENDS Integers, Sequences, FiniteSets

\* candidates contributed by one entry: set of <<sym, date, price>>
EntryCandidates(e) ==
  \* kind "both": ONE detail object carrying a vest-date market value (price) and a fallback price (fprice): it is a
  \* vest-date value, priced at the vest-date market value
  LET vests == {<<e.sym, IF d.vdate = 0 THEN e.date ELSE d.vdate, d.price>> : d \in {x \in e.details : x.kind \in {"vest", "both"}}}
      fallbacks == {<<e.sym, e.date, d.price>> : d \in {x \in e.details : x.kind = "fallback"}}
  IN IF vests # {} THEN vests ELSE fallbacks       \* vest-date value beats the fallback inside an entry
Candidates(entries) == UNION {EntryCandidates(entries[j]) : j \in 1..Len(entries)}

InWindow(date, dep) == dep - 7 <= date /\ date <= dep
\* admissible results: candidates of the symbol on the closest admissible date (several if that date has several prices)
Lookup(entries, sym, dep) ==
  LET c == {x \in Candidates(entries) : x[1] = sym /\ InWindow(x[2], dep)}
  IN IF c = {} THEN {}
     ELSE LET best == CHOOSE d \in {x[2] : x \in c} : \A y \in c : y[2] <= d IN {x \in c : x[2] = best}
=============================================================================
