------------------------------ MODULE MC_Schwab ------------------------------
(* Every export of at most MaxRows rows over a small row alphabet (all orders, duplicates      *)
(* included): trades, duplicate and near-duplicate sells, cancellations (also dated "as of"),   *)
(* dividends with and without same-day withholding, orphan withholding, blank amounts, stock    *)
(* splits, non-CGT rows and unknown actions whose free text tries to escape its comment line.   *)
EXTENDS Schwab, TLC, Json

CONSTANTS MaxRows, TextClasses, Pools

Row(kind, date, qty, price, fees, amount, text, asof) ==
  [kind |-> kind, date |-> date, sym |-> "XYZ", qty |-> qty, price |-> price, fees |-> fees, amount |-> amount, text |-> text, asof |-> asof]
Alphabet ==
  { Row("Buy", 1, "10", "5.00", "1.00", "", "plain", FALSE),
    Row("Buy", 2, "2.5", "6", "", "", "plain", FALSE),
    Row("Sell", 2, "4", "8.00", "0.50", "", "plain", FALSE),
    Row("Sell", 2, "4", "9.00", "", "", "plain", FALSE),           \* same day and quantity, other price
    Row("Sell", 3, "1", "8.00", "", "", "plain", FALSE),
    Row("CancelSell", 2, "4", "8.00", "", "", "plain", FALSE),
    Row("CancelSell", 2, "4", "8.00", "", "", "plain", TRUE),      \* booked on day 3 "as of" day 2
    Row("CashDividend", 2, "", "", "", "6.00", "plain", FALSE),
    Row("QualifiedDividend", 2, "", "", "", "3.25", "plain", FALSE),
    Row("CashDividend", 3, "", "", "", "", "plain", FALSE),        \* blank amount
    Row("LongTermCapGain", 2, "", "", "", "", "plain", FALSE),     \* blank amount on a day that has a real dividend and withholding
    Row("NraWithholding", 2, "", "", "", "-1.50", "plain", FALSE),
    Row("NraTaxAdj", 2, "", "", "", "-0.25", "plain", FALSE),
    Row("NraWithholding", 3, "", "", "", "-0.75", "plain", FALSE), \* no dividend that day
    Row("StockSplit", 2, "", "", "", "", "plain", FALSE),
    Row("Journal", 1, "", "", "", "-100.00", "plain", FALSE) }
  \cup { Row("Unknown", 2, "", "", "", "", t, FALSE) : t \in TextClasses }

\* fixed five-row exports in EVERY row order (Pools = TRUE): two different sells, their two cancellations and a purchase --
\* cancellations listed in the opposite order to their sells, before them, after them, with a row behind the later sell
Pool1 == << Row("Sell", 2, "4", "8.00", "0.50", "", "plain", FALSE), Row("Sell", 3, "1", "8.00", "", "", "plain", FALSE),
            Row("CancelSell", 3, "1", "8.00", "", "", "plain", FALSE), Row("CancelSell", 2, "4", "8.00", "", "", "plain", FALSE),
            Row("Buy", 2, "2.5", "6", "", "", "plain", FALSE) >>
\* one sell cancelled, its twin kept, a dividend with withholding behind them
Pool2 == << Row("Sell", 2, "4", "8.00", "0.50", "", "plain", FALSE), Row("Sell", 2, "4", "8.00", "0.50", "", "plain", FALSE),
            Row("CancelSell", 2, "4", "8.00", "", "", "plain", FALSE), Row("CashDividend", 2, "", "", "", "6.00", "plain", FALSE),
            Row("NraWithholding", 2, "", "", "", "-1.50", "plain", FALSE) >>
\* two sells whose prices differ only below a cent and a cancellation at the price rounded to the cent: it matches NEITHER
\* (a Cancel Sell removes a Sell equal in date, symbol, quantity and price, or warns) -- both disposals stay
Pool3 == << Row("Sell", 2, "10", "55.1234", "", "", "plain", FALSE), Row("Sell", 2, "10", "55.1199", "", "", "plain", FALSE),
            Row("CancelSell", 2, "10", "55.12", "", "", "plain", FALSE), Row("Buy", 1, "10", "5.00", "1.00", "", "plain", FALSE),
            Row("CashDividend", 2, "", "", "", "6.00", "plain", FALSE) >>
PermSeqs(seq) == {[ix \in 1..Len(seq) |-> seq[pm[ix]]] : pm \in {qm \in [1..Len(seq) -> 1..Len(seq)] : \A ix, jx \in 1..Len(seq) : ix # jx => qm[ix] # qm[jx]}}
Exports == UNION {[1..n -> Alphabet] : n \in 0..MaxRows} \cup (IF Pools THEN PermSeqs(Pool1) \cup PermSeqs(Pool2) \cup PermSeqs(Pool3) ELSE {})
MCInit == \E rs \in Exports : SInit(rs)
MCSpec == MCInit /\ [][SNext]_svars

Emit ==
  Done => PrintT(<<"SCHWAB", ToJson([rows |-> rows, lines |-> lines, skipped |-> skipped, comments |-> Len(comments), warnings |-> warnings])>>)
=============================================================================
