------------------------------- MODULE Format -------------------------------
(***************************************************************************)
(* How figures are shown (C17).  Money values are integers in thousandths  *)
(* of a pound (so every half-penny midpoint is representable).  A front-   *)
(* end shows a monetary value either in full or rounded to pence with      *)
(* midpoints away from zero; text and PDF render pence amounts as          *)
(* "£1,234.56" with thousands separators and "-£" for negatives; dates     *)
(* read DD/MM/YYYY and tax years YYYY/YY.                                  *)
(***************************************************************************)
EXTENDS Integers, Sequences, TLC

FAbs(x) == IF x < 0 THEN -x ELSE x
\* thousandths -> pence, midpoints away from zero
RoundPence(k) ==
  LET a == FAbs(k)  q == a \div 10  r == a - 10 * q
      p == IF r >= 5 THEN q + 1 ELSE q
  IN IF k < 0 THEN -p ELSE p

Pad(n, w) == LET s == ToString(n) IN
  IF Len(s) >= w THEN s ELSE IF w - Len(s) = 1 THEN "0" \o s ELSE IF w - Len(s) = 2 THEN "00" \o s ELSE "000" \o s
RECURSIVE Grouped(_)
Grouped(n) == IF n < 1000 THEN ToString(n) ELSE Grouped(n \div 1000) \o "," \o Pad(n - 1000 * (n \div 1000), 3)
\* pence -> "£1,234.56" / "-£0.13".  TLC prints ASCII only, so the pound sign is written "$" here and
\* the harness reads it as U+00A3.
PoundSign == "$"
GbpOfPence(p) ==
  LET a == FAbs(p) IN (IF p < 0 THEN "-" ELSE "") \o PoundSign \o Grouped(a \div 100) \o "." \o Pad(a - 100 * (a \div 100), 2)
Gbp(k) == GbpOfPence(RoundPence(k))
\* (pounds + k thousandths) for magnitudes beyond TLC's 32-bit integers: pounds are whole, so rounding only concerns k
\* (the total is positive, so a midpoint goes UP whatever the sign of k: \div is the floor)
GbpBig(pounds, k) == GbpOfPence(pounds * 100 + ((k + 5) \div 10))
\* n/d thousandths (n >= 0, d > 0) rounded to pence, midpoints away from zero: an average cost
RoundPenceRatio(n, d) == (2 * n + 10 * d) \div (20 * d)
GbpRatio(n, d) == GbpOfPence(RoundPenceRatio(n, d))
\* rounding never moves a value by more than half a penny and is symmetric
RoundLaw(k) == /\ FAbs(10 * RoundPence(k) - k) <= 5
               /\ RoundPence(-k) = -RoundPence(k)
               /\ (FAbs(10 * RoundPence(k) - k) = 5 => FAbs(RoundPence(k)) * 10 > FAbs(k))

\* ---- echoes of the input: unit prices and fees in their own currency (C17 "foreign-currency transaction echoes")
\* value in thousandths shown in full, trailing zeros dropped: 150000 -> "150", 4250 -> "4.25", 5 -> "0.005"
Trimmed(k) ==
  LET a == k \div 1000  r == k - 1000 * a IN
  IF r = 0 THEN ToString(a)
  ELSE IF r - 100 * (r \div 100) = 0 THEN ToString(a) \o "." \o ToString(r \div 100)
  ELSE IF r - 10 * (r \div 10) = 0 THEN ToString(a) \o "." \o Pad(r \div 10, 2)
  ELSE ToString(a) \o "." \o Pad(r, 3)
\* the text report writes a unit price / fee as the currency's symbol followed by the full value; the symbol is
\* named here (TLC prints ASCII) and spelt by the harness: pound, dollar, euro
SymbolName(cur) == CASE cur = "GBP" -> "pound" [] cur = "USD" -> "dollar" [] cur = "EUR" -> "euro" [] OTHER -> cur
PriceText(k, cur) == <<SymbolName(cur), Trimmed(k)>>
\* a value in a table cell of the PDF: pounds as everywhere else, other currencies as "USD 1,234.57" -- always in the
\* amount's OWN currency
CurCell(k, cur) ==
  IF cur = "GBP" THEN Gbp(k)
  ELSE LET p == RoundPence(k) IN cur \o " " \o Grouped(p \div 100) \o "." \o Pad(p - 100 * (p \div 100), 2)
\* the value of an asset event in the text report: pounds as everywhere else, otherwise "1234.57 USD"
EventText(k, cur) ==
  IF cur = "GBP" THEN Gbp(k)
  ELSE LET p == RoundPence(k) IN ToString(p \div 100) \o "." \o Pad(p - 100 * (p \div 100), 2) \o " " \o cur
\* quantities are shown exactly; the PDF keeps at most six decimal places and drops trailing zeros, so for the
\* quantities used here (q in thousandths) both front-ends show the same text
QtyText(q) == Trimmed(q)
QtyPdf(q) == Trimmed(q)

DateUk(y, m, d) == Pad(d, 2) \o "/" \o Pad(m, 2) \o "/" \o Pad(y, 4)
TaxYearLabel(Y) == ToString(Y) \o "/" \o Pad((Y + 1) - 100 * ((Y + 1) \div 100), 2)
=============================================================================
