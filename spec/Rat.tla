-------------------------------- MODULE Rat --------------------------------
(***************************************************************************)
(* Exact rational arithmetic on normalised pairs <<n, d>> (d > 0,          *)
(* gcd(|n|, d) = 1).  Because values are normalised, equality of rationals *)
(* is structural equality of the pairs.  TLC integers are 32-bit; overflow *)
(* is a TLC error, never a silent wrap, and the model constants are sized  *)
(* so that it does not occur.                                              *)
(***************************************************************************)
EXTENDS Integers, Sequences

Abs(x) == IF x < 0 THEN -x ELSE x
Mod(a, b) == a - b * (a \div b)

RECURSIVE GCD(_, _)
GCD(a, b) == IF b = 0 THEN a ELSE GCD(b, Mod(a, b))

Norm(n, d) ==
  IF n = 0 THEN <<0, 1>>
  ELSE LET s == IF d < 0 THEN -1 ELSE 1
           g == GCD(Abs(n), Abs(d))
       IN <<(s * n) \div g, (s * d) \div g>>

R(n) == <<n, 1>>
Zero == <<0, 1>>
One == <<1, 1>>

IsRat(x) == /\ x \in Int \X Int
            /\ x[2] > 0
            /\ Norm(x[1], x[2]) = x

\* Addition through the lcm keeps intermediate products small.
Add(a, b) ==
  LET g == GCD(a[2], b[2])
      da == a[2] \div g
      db == b[2] \div g
  IN Norm(a[1] * db + b[1] * da, da * b[2])
Neg(a) == <<-a[1], a[2]>>
Sub(a, b) == Add(a, Neg(b))
\* Cross-cancel before multiplying.
Mul(a, b) ==
  IF a[1] = 0 \/ b[1] = 0 THEN Zero
  ELSE LET g1 == GCD(Abs(a[1]), b[2])
           g2 == GCD(Abs(b[1]), a[2])
       IN Norm((a[1] \div g1) * (b[1] \div g2), (a[2] \div g2) * (b[2] \div g1))
Inv(a) == IF a[1] < 0 THEN <<-a[2], -a[1]>> ELSE <<a[2], a[1]>>   \* a # 0
Div(a, b) == Mul(a, Inv(b))                                        \* b # 0

Lt(a, b) == a[1] * b[2] < b[1] * a[2]
Le(a, b) == a[1] * b[2] <= b[1] * a[2]
Gt(a, b) == Lt(b, a)
Ge(a, b) == Le(b, a)
IsZero(a) == a[1] = 0
IsPos(a) == a[1] > 0
IsNeg(a) == a[1] < 0
Min(a, b) == IF Le(a, b) THEN a ELSE b
Max(a, b) == IF Le(a, b) THEN b ELSE a
RAbs(a) == <<Abs(a[1]), a[2]>>

\* Sum of f[i] for i in lo..hi (f a function or sequence of rationals).
RECURSIVE SumRange(_, _, _)
SumRange(f, lo, hi) == IF lo > hi THEN Zero ELSE Add(f[lo], SumRange(f, lo + 1, hi))

\* Product of f[i] for i in lo..hi.
RECURSIVE ProdRange(_, _, _)
ProdRange(f, lo, hi) == IF lo > hi THEN One ELSE Mul(f[lo], ProdRange(f, lo + 1, hi))

SumSeq(s) == SumRange(s, 1, Len(s))
=============================================================================
