----------------------------- MODULE MC_CgtLaw -----------------------------
(***************************************************************************)
(* Laws relating TWO runs of the matcher (C09, C10, C12), checked on the   *)
(* specification itself: two instances A and B of Cgt run one after the    *)
(* other on a ledger and on its transform, and at the end the law's        *)
(* relation between the two outcomes is an invariant.  The transformations *)
(* are defined here, in TLA+; every pair is also printed (PAIR line) so    *)
(* that the harness can demand the same relation of the implementation,    *)
(* comparing implementation run against implementation run.                *)
(*                                                                         *)
(*   rescale : a ledger with one split  vs  the same ledger rewritten in   *)
(*             post-split units, split removed                    (C10)    *)
(*   unsplit : a ledger  vs  the ledger plus SPLIT f ... UNSPLIT f with no *)
(*             trade in between                                   (C10)    *)
(*   extend  : a prefix  vs  prefix + transactions dated more than 30 days *)
(*             after it (no cost events)                          (C12)    *)
(*   project : a two-security ledger  vs  one security's cells alone (C09) *)
(***************************************************************************)
EXTENDS Integers, Sequences, FiniteSets, Rat, CgtConst, CgtGen, TLC, Json

CONSTANTS SecSeq, N, DayNo,
  Law,          \* "rescale" | "unsplit" | "extend" | "project"
  BuyQs, SellQs, SplitKinds, Timings,
  PrefixDays,   \* extend: day slots 1..PrefixDays form the prefix
  EventKinds,   \* extend: cost-event kinds that may occur (at most one event, inside the prefix)
  MaxCells

VARIABLES La, ta, da, pca, daya, sia, poola, claimeda, holda, rema, legsa, erra,
          Lb, tb, db, pcb, dayb, sib, poolb, claimedb, holdb, remb, legsb, errb,
          par           \* parameters of the transformation (record), constant along a behaviour

avars == <<La, ta, da, pca, daya, sia, poola, claimeda, holda, rema, legsa, erra>>
bvars == <<Lb, tb, db, pcb, dayb, sib, poolb, claimedb, holdb, remb, legsb, errb>>

A == INSTANCE Cgt WITH L <- La, timing <- ta, dist <- da, pc <- pca, day <- daya, si <- sia, pool <- poola,
                       claimed <- claimeda, hold <- holda, rem <- rema, legs <- legsa, err <- erra
B == INSTANCE Cgt WITH L <- Lb, timing <- tb, dist <- db, pc <- pcb, day <- dayb, si <- sib, pool <- poolb,
                       claimed <- claimedb, hold <- holdb, rem <- remb, legs <- legsb, err <- errb

Secs == {SecSeq[i] : i \in 1..Len(SecSeq)}
Days == 1..N
SecNo(s) == CHOOSE i \in 1..Len(SecSeq) : SecSeq[i] = s
ZeroDist == [s \in Secs |-> [e \in Days |-> [a \in Days |-> Zero]]]
EmptyCell == GenCellOf(0, 1, 0, 0, 1, 0, 0)

BaseCells == [bq : BuyQs, sq : SellQs]
NonEmpty(g) == Cardinality({d \in Days : g[d].bq # 0}) + Cardinality({d \in Days : g[d].sq # 0})
BaseLedgers == {g \in [Days -> BaseCells] : MaxCells = 0 \/ NonEmpty(g) <= MaxCells}
SecLedgerEv(s, g, spl, ev) == [d \in Days |-> GenCellOf(SecNo(s) - 1, d, g[d].bq, g[d].sq, 1, spl[d], ev[d])]
SecLedger(s, g, spl) == SecLedgerEv(s, g, spl, [d \in Days |-> 0])
NoSplits == [d \in Days |-> 0]

\* shares held at the start of day d ("end" split timing), from the ledger alone
RECURSIVE HeldBefore(_, _, _)
HeldBefore(l, s, d) ==
  IF d = 1 THEN Zero
  ELSE Mul(Sub(Add(HeldBefore(l, s, d - 1), l[s][d - 1].bq), l[s][d - 1].sq), l[s][d - 1].split)
NetOf(c) == Sub(c.ac, Sub(c.cr, c.crf))
\* a canonical admissible apportionment: each effective event goes, whole, on the earliest acquisition day
FirstLotDist(l) ==
  [s \in Secs |-> [e \in Days |-> [a \in Days |->
     LET c == l[s][e]
         el == {x \in Days : x <= e /\ IsPos(l[s][x].bq)}
     IN IF (~IsZero(c.ac) \/ ~IsZero(c.cr)) /\ IsPos(HeldBefore(l, s, e)) /\ el # {} /\ a = (CHOOSE x \in el : \A y \in el : x <= y)
        THEN NetOf(c) ELSE Zero]]]
DistNonNeg(l, dd) ==
  \A s \in Secs, a \in Days :
    IsPos(l[s][a].bq) =>
      ~IsNeg(Add(Add(Mul(l[s][a].bq, l[s][a].bp), l[s][a].bf), SumRange([e \in Days |-> dd[s][e][a]], 1, N)))

-----------------------------------------------------------------------------
(* Transformations *)

\* is day d quoted in pre-split units, for a split on day x under timing tm?
PreSplit(tm, d, x) == IF tm = "end" THEN d <= x ELSE d < x

\* C10: rewrite security s in post-split units (split on day x with factor f), split line removed
Rescale(ledger, tm, s, x) ==
  LET f == ledger[s][x].split IN
  [ledger EXCEPT ![s] = [d \in Days |->
     LET c == ledger[s][d] IN
     IF PreSplit(tm, d, x)
     THEN [c EXCEPT !.bq = Mul(c.bq, f), !.bp = Div(c.bp, f), !.sq = Mul(c.sq, f), !.sp = Div(c.sp, f),
                    !.split = IF d = x THEN One ELSE c.split]
     ELSE [c EXCEPT !.split = IF d = x THEN One ELSE c.split]]]

\* C10: SPLIT f on day x and UNSPLIT f on day y > x (no trade of s on days x+1 .. y under "end" timing)
WithSplitPair(ledger, s, x, y, f) ==
  [ledger EXCEPT ![s][x].split = f, ![s][y].split = Inv(f)]
NoTradeBetween(ledger, s, x, y) ==
  \A d \in (x + 1)..y : IsZero(ledger[s][d].bq) /\ IsZero(ledger[s][d].sq)

\* C12: the prefix of a ledger (later day slots emptied)
Prefix(ledger, p) == [s \in Secs |-> [d \in Days |-> IF d <= p THEN ledger[s][d] ELSE EmptyCell]]

\* C09: one security's transactions alone
Project(ledger, s) == [t \in Secs |-> IF t = s THEN ledger[t] ELSE [d \in Days |-> EmptyCell]]

-----------------------------------------------------------------------------
(* Pairs enumerated as initial states *)

StartD(la, lb, tm, p, dda, ddb) ==
  /\ A!InitWith(la, tm, dda, "start")
  /\ B!InitWith(lb, tm, ddb, "start")
  /\ par = p
Start(la, lb, tm, p) == StartD(la, lb, tm, p, ZeroDist, ZeroDist)

Init ==
  \/ /\ Law = "rescale" /\ Len(SecSeq) = 1
     /\ \E g \in BaseLedgers, x \in Days, k \in SplitKinds, tm \in Timings,
           ev \in {[d \in Days |-> 0]} \cup {[d \in Days |-> IF d = e THEN kk ELSE 0] : e \in Days, kk \in EventKinds} :
          LET s == SecSeq[1]
              l == [t \in Secs |-> SecLedgerEv(t, g, [d \in Days |-> IF d = x THEN k ELSE 0], ev)]
              lb == Rescale(l, tm, s, x)
              \* the canonical apportionment looks only at which days have purchases and at whether shares are
              \* held, both of which the rewrite preserves, so the two runs carry the same adjustment
              dd == FirstLotDist(lb)
          IN /\ (\E d \in Days : ev[d] # 0) => tm = "end"
             /\ DistNonNeg(lb, dd)
             /\ StartD(l, lb, tm, [law |-> Law, sec |-> s, x |-> x, f |-> l[s][x].split], dd, dd)
  \* two securities: only the second is split and rewritten; the first must not notice
  \/ /\ Law = "rescale" /\ Len(SecSeq) = 2
     /\ \E g1 \in BaseLedgers, g2 \in BaseLedgers, x \in Days, k \in SplitKinds, tm \in Timings :
          LET s == SecSeq[2]
              l == [t \in Secs |-> IF t = s THEN SecLedger(t, g2, [d \in Days |-> IF d = x THEN k ELSE 0])
                                    ELSE SecLedger(t, g1, NoSplits)]
          IN Start(l, Rescale(l, tm, s, x), tm, [law |-> Law, sec |-> s, x |-> x, f |-> l[s][x].split])
  \/ /\ Law = "unsplit"
     /\ \E g \in BaseLedgers, x \in Days, y \in Days, k \in SplitKinds :
          LET s == SecSeq[1]
              l == [t \in Secs |-> SecLedger(t, g, NoSplits)]
              f == Norm(SplitTable[k][1], SplitTable[k][2])
          IN /\ x < y
             /\ NoTradeBetween(l, s, x, y)
             /\ Start(l, WithSplitPair(l, s, x, y, f), "end", [law |-> Law, sec |-> s, x |-> x, y |-> y, f |-> f])
  \/ /\ Law = "extend"
     /\ DayNo[PrefixDays + 1] - DayNo[PrefixDays] > 30
     /\ \E g \in BaseLedgers,
           \* one split anywhere: among the later transactions, or inside the prefix (also on a day the prefix trades)
           spl \in {NoSplits} \cup {[d \in Days |-> IF d = x THEN k ELSE 0] : x \in Days, k \in SplitKinds},
           ev \in {[d \in Days |-> 0]} \cup {[d \in Days |-> IF d = e THEN k ELSE 0] : e \in 1..PrefixDays, k \in EventKinds} :
          LET l == [t \in Secs |-> SecLedgerEv(t, g, spl, ev)]
              pl == Prefix(l, PrefixDays)
              dd == FirstLotDist(pl)      \* later transactions never change what an earlier event did
          IN /\ DistNonNeg(pl, dd)
             /\ StartD(pl, l, "end", [law |-> Law, p |-> PrefixDays], dd, dd)
  \/ /\ Law = "project"
     /\ \E g1 \in BaseLedgers, g2 \in BaseLedgers :
          LET l == [t \in Secs |-> SecLedger(t, IF t = SecSeq[1] THEN g1 ELSE g2, NoSplits)]
          IN Start(l, Project(l, SecSeq[1]), "end", [law |-> Law, sec |-> SecSeq[1]])

\* A runs to completion, then B (both are deterministic, so there is one path per pair)
StartA == /\ pca = "start" /\ pca' = A!EnterPc(1, 1)
          /\ UNCHANGED <<La, ta, da, daya, sia, poola, claimeda, holda, rema, legsa, erra>> /\ UNCHANGED bvars
StartB == /\ A!Terminated /\ pcb = "start" /\ pcb' = B!EnterPc(1, 1)
          /\ UNCHANGED <<Lb, tb, db, dayb, sib, poolb, claimedb, holdb, remb, legsb, errb>> /\ UNCHANGED avars
Next == /\ UNCHANGED par
        /\ \/ StartA
           \/ pca # "start" /\ A!Next /\ UNCHANGED bvars
           \/ StartB
           \/ A!Terminated /\ pcb # "start" /\ B!Next /\ UNCHANGED avars
Spec == Init /\ [][Next]_<<avars, bvars, par>>

BothDone == A!Terminated /\ B!Terminated

-----------------------------------------------------------------------------
(* The laws *)

MoneyEq(g, h) == g.cost = h.cost /\ g.gross = h.gross /\ g.net = h.net /\ g.gain = h.gain
KeyEq(g, h) == g.s = h.s /\ g.d = h.d /\ g.rule = h.rule /\ g.a = h.a
SameOutcomeKind == pca = pcb /\ erra = errb

RescaleLaw ==
  LET s == par.sec  x == par.x  f == par.f IN
  /\ SameOutcomeKind
  /\ pca = "done" =>
       /\ Len(legsa) = Len(legsb)
       /\ \A i \in 1..Len(legsa) :
            /\ KeyEq(legsa[i], legsb[i]) /\ MoneyEq(legsa[i], legsb[i])
            /\ legsb[i].q = (IF legsa[i].s = s /\ PreSplit(ta, legsa[i].d, x) THEN Mul(legsa[i].q, f) ELSE legsa[i].q)
       /\ poola = poolb

IdentityLaw ==
  /\ SameOutcomeKind
  /\ pca = "done" => legsa = legsb /\ poola = poolb

ExtendLaw ==
  LET p == par.p IN
  /\ pca = "done" =>
       /\ SelectSeq(legsb, LAMBDA g : g.d <= p) = legsa
       /\ pcb = "failed" => errb[2] > p
  /\ pca = "failed" => pcb = "failed" /\ errb = erra

ProjectLaw ==
  LET s == par.sec IN
  /\ pca = "done" =>
       /\ pcb = "done"
       /\ SelectSeq(legsa, LAMBDA g : g.s = s) = legsb
       /\ poola[s] = poolb[s]
  /\ (pca = "failed" /\ erra[1] = s) => (pcb = "failed" /\ errb = erra)

LawHolds ==
  BothDone =>
    CASE Law = "rescale" -> RescaleLaw
      [] Law = "unsplit" -> IdentityLaw
      [] Law = "extend" -> ExtendLaw
      [] Law = "project" -> ProjectLaw

-----------------------------------------------------------------------------
(* PAIR emission *)

CellArr(c) == <<c.bq, c.bp, c.bf, c.sq, c.sp, c.sf, c.split, c.ac, c.cr, c.crf>>
LegArr(g) == <<g.s, g.d, g.rule, g.a, g.q, g.cost, g.gross, g.net, g.gain>>
Side(l, tm, pcx, errx, lg, pl) ==
  [days |-> DayNo, secs |-> SecSeq, timing |-> tm,
   ledger |-> [i \in 1..Len(SecSeq) |-> [d \in Days |-> CellArr(l[SecSeq[i]][d])]],
   dist |-> <<>>,
   status |-> IF pcx = "done" THEN "ok" ELSE "error",
   err |-> errx,
   uncovered |-> IF pcx = "failed" THEN {errx[1]} ELSE {},
   legs |-> [i \in 1..Len(lg) |-> LegArr(lg[i])],
   pool |-> [i \in 1..Len(SecSeq) |-> <<pl[SecSeq[i]].q, pl[SecSeq[i]].c>>]]
EmitPair ==
  BothDone => PrintT(<<"PAIR", ToJson([par |-> par,
                                      a |-> Side(La, ta, pca, erra, legsa, poola),
                                      b |-> Side(Lb, tb, pcb, errb, legsb, poolb)])>>)
=============================================================================
