------------------------------- MODULE MC_Fx -------------------------------
(* Every combination of a rates-folder configuration and a currency assignment to the six   *)
(* money fields of a three-line ledger (BUY end of January, DIVIDEND / CAPRETURN / ACCUMULATION *)
(* on 1 February, SELL either                                                                 *)
(* 29 February or in a month the bundled rates do not cover).  One FX line per behaviour.   *)
EXTENDS Fx, TLC, Json

Curs == {"GBP", "USD", "EUR"}
M1 == <<2024, 1>>
M2 == <<2024, 2>>
M3 == <<2031, 4>>       \* beyond the bundled rates
MC_BundledKeys == {<<c, m>> : c \in {"USD", "EUR"}, m \in {M1, M2}}

File(id, name, period, mtime, ext, rates) ==
  [id |-> id, name |-> name, period |-> period, mtime |-> mtime, ext |-> ext, rates |-> rates]
Pos2(c) == {<<c, "pos">>}

\* folder configurations (sequence of files); 0 files = an empty folder
FolderConfigs ==
  { <<>>,
    \* override one key
    <<File(1, M1, M1, 10, "xml", Pos2("USD"))>>,
    \* add a month the bundle lacks
    <<File(1, M3, M3, 10, "xml", Pos2("USD") \cup Pos2("EUR"))>>,
    \* two files for the same month: the later modification time wins, whatever the directory order
    <<File(1, M1, M1, 20, "xml", Pos2("USD")), File(2, M1, M1, 10, "xml", Pos2("USD") \cup Pos2("EUR"))>>,
    <<File(1, M1, M1, 10, "xml", Pos2("USD")), File(2, M1, M1, 20, "xml", Pos2("USD") \cup Pos2("EUR"))>>,
    \* period disagrees with the name: month only, year only, both
    <<File(1, M1, M2, 10, "xml", Pos2("USD"))>>,
    <<File(1, <<2023, 2>>, M2, 10, "xml", Pos2("USD"))>>,
    <<File(1, <<2023, 1>>, M2, 10, "xml", Pos2("USD"))>>,
    \* non-positive rates
    <<File(1, M2, M2, 10, "xml", {<<"USD", "zero">>})>>,
    <<File(1, M2, M2, 10, "xml", {<<"EUR", "neg">>, <<"USD", "pos">>})>>,
    \* a currency listed twice in one file (one row per country), the later row non-positive: still a non-positive rate
    <<File(1, M2, M2, 10, "xml", {<<"USD", "dupzero">>})>>,
    <<File(1, M1, M1, 10, "xml", {<<"EUR", "dupneg">>, <<"USD", "pos">>})>>,
    \* a file that cannot be read as a rates file at all (truncated XML / bytes that are not UTF-8): bad, the run fails --
    \* the rate the user supplied is never silently replaced by the bundled one
    <<File(1, M1, M1, 10, "xml", {<<"USD", "garbled">>})>>,
    <<File(1, M2, M2, 10, "xml", Pos2("EUR")), File(2, M3, M3, 20, "xml", {<<"USD", "garbled">>})>>,
    \* a non-xml file is ignored even if it is garbage, next to a valid override
    <<File(1, M1, M2, 5, "txt", {<<"USD", "zero">>}), File(2, M2, M2, 10, "xml", Pos2("EUR"))>>,
    \* a good file applied before a bad one still fails the run
    <<File(1, M1, M1, 10, "xml", Pos2("USD")), File(2, M2, M1, 20, "xml", Pos2("EUR"))>> }

SellMonths == {M2, M3}
\* the middle line is a DIVIDEND (total, tax), a CAPRETURN (total, fees) or an ACCUMULATION (total, tax)
EvKinds == {"div", "cr", "ac"}
FieldSeq(cs, sm, ek) ==
  << [cur |-> cs[1], ym |-> M1, what |-> "buy_price"], [cur |-> cs[2], ym |-> M1, what |-> "buy_fees"],
     [cur |-> cs[3], ym |-> M2, what |-> ek \o "_total"], [cur |-> cs[4], ym |-> M2, what |-> ek \o (IF ek = "cr" THEN "_fees" ELSE "_tax")],
     [cur |-> cs[5], ym |-> sm, what |-> "sell_price"], [cur |-> cs[6], ym |-> sm, what |-> "sell_fees"] >>

MCInit == \E fs \in FolderConfigs, cs \in [1..6 -> Curs], sm \in SellMonths, ek \in EvKinds : FxInit(fs, FieldSeq(cs, sm, ek))
MCSpec == MCInit /\ [][FxNext]_fxvars

Emit ==
  phase = "done" =>
    PrintT(<<"FX", ToJson([files |-> files, fields |-> fields, result |-> result,
                           sources |-> IF result[1] = "ok" THEN [i \in 1..Len(fields) |-> SourceOf(fields[i])] ELSE <<>>])>>)
=============================================================================
