----------------------------- MODULE Determinism -----------------------------
(***************************************************************************)
(* Canonical order of everything the report lists (C16).  The calculator   *)
(* collects tax years, disposals, holdings and dividend totals in hash     *)
(* maps; a hash map hands its entries back in an ARBITRARY order, modelled *)
(* here as an arbitrary permutation pi of the key set.  Output is then     *)
(* produced by sorting with the comparators below.  Determinism is the     *)
(* theorem that the output does not depend on pi, which holds exactly when *)
(* each comparator is a strict total order on the keys: years ascending,   *)
(* disposals by date then ticker, holdings by ticker, echoed transactions  *)
(* by date then ticker (ties left in input order).  Tickers are sequences  *)
(* of letter codes compared lexicographically, a proper prefix first.      *)
(***************************************************************************)
EXTENDS Integers, Sequences, FiniteSets

RECURSIVE LexLess(_, _)
LexLess(a, b) ==
  IF a = <<>> THEN b # <<>>
  ELSE IF b = <<>> THEN FALSE
  ELSE IF Head(a) # Head(b) THEN Head(a) < Head(b)
  ELSE LexLess(Tail(a), Tail(b))

\* disposal keys are <<date, ticker>>
DispLess(x, y) == x[1] < y[1] \/ (x[1] = y[1] /\ LexLess(x[2], y[2]))

StrictTotal(S, Less(_, _)) ==
  /\ \A x \in S : ~Less(x, x)
  /\ \A x, y \in S : x # y => (Less(x, y) \/ Less(y, x)) /\ ~(Less(x, y) /\ Less(y, x))
  /\ \A x, y, z \in S : (Less(x, y) /\ Less(y, z)) => Less(x, z)

Perms(S) == {f \in [1..Cardinality(S) -> S] : \A i, j \in 1..Cardinality(S) : i # j => f[i] # f[j]}
IsSortedBy(s, Less(_, _)) == \A i, j \in 1..Len(s) : i < j => ~Less(s[j], s[i])
\* the sorted arrangements of a hash-order pi: sequences with the same elements that the comparator accepts
SortedOutputs(S, Less(_, _)) == {s \in Perms(S) : IsSortedBy(s, Less)}
\* determinism of a site: whatever the hash order, there is exactly one admissible output
Deterministic(S, Less(_, _)) == Cardinality(SortedOutputs(S, Less)) = 1
Canonical(S, Less(_, _)) == CHOOSE s \in SortedOutputs(S, Less) : TRUE
=============================================================================
