------------------------------- MODULE MC_Dsl -------------------------------
(* Generator for C13/C14: every command with every combination of optional clauses and     *)
(* currencies, rendered under every lexical style, optionally corrupted at one token; the  *)
(* specification's verdict (meaning, or rejection) is printed with each case (DSL line).   *)
EXTENDS Dsl, TLC, Json

VARIABLES line,   \* the token sequence under test (after corruption)
          base,   \* the uncorrupted transaction record, or <<>> 
          style,  \* lexical style record
          corr    \* corruption applied: <<>> or <<kind, position>>
vars == <<line, base, style, corr>>

Dates == {"2024-02-29"}
Tickers == {"AAA", "SELL", "x9"}         \* a keyword spelling and a lower/mixed alphanumeric are valid tickers
Qtys == {"10", "0.001"}
Amts == {"150.00", "7"}
Extras == {"0", "2.5"}
Curs == {"GBP", "USD", "none"}
XCurs == {"JPY", "none"}

TxSet ==
  {[ok |-> TRUE, date |-> d, cmd |-> c, ticker |-> t, f |-> [qty |-> q, amount |-> a, cur |-> cu, extra |-> e, xcur |-> xc]] :
     d \in Dates, c \in {"BUY", "SELL", "ACCUMULATION", "CAPRETURN"}, t \in Tickers, q \in Qtys, a \in Amts, cu \in Curs \ {"none"},
     e \in Extras, xc \in {"GBP", "JPY"}}
  \cup
  {[ok |-> TRUE, date |-> d, cmd |-> "DIVIDEND", ticker |-> t, f |-> [qty |-> "", amount |-> a, cur |-> cu, extra |-> e, xcur |-> xc]] :
     d \in Dates, t \in Tickers, a \in Amts, cu \in Curs \ {"none"}, e \in Extras, xc \in {"GBP", "JPY"}}
  \cup
  {[ok |-> TRUE, date |-> d, cmd |-> c, ticker |-> t, f |-> [qty |-> "", amount |-> a, cur |-> "", extra |-> "", xcur |-> ""]] :
     d \in Dates, c \in {"SPLIT", "UNSPLIT"}, t \in Tickers, a \in {"2", "1.5"}}

\* C14: in-memory transactions (tickers already upper-case) over richer decimal literal classes:
\* trailing zeros, 28-digit fractions, the largest 96-bit integer, currencies with 0 and 3 minor units
RtQtys == {"10", "0.001", "1.50", "0.0000000000000000000000000001", "79228162514264337593543950335"}
RtAmts == {"150.00", "7", "0.10", "123456789012345678.1234567890", "0"}
RtExtras == {"0", "2.5", "0.00", "9.990"}
RtCurs == {"GBP", "USD", "JPY", "BHD"}
RtTxSet ==
  {[ok |-> TRUE, date |-> d, cmd |-> c, ticker |-> t, f |-> [qty |-> q, amount |-> a, cur |-> cu, extra |-> e, xcur |-> xc]] :
     \* (30 December 2024 and 1 January 2021 belong to ISO weeks of the neighbouring year)
     d \in {"2024-02-29", "0001-01-01", "9999-12-31", "2024-12-30", "2021-01-01"}, c \in {"BUY", "SELL", "ACCUMULATION", "CAPRETURN"}, t \in {"AAA", "SELL", "X9"},
     q \in RtQtys, a \in RtAmts, cu \in RtCurs, e \in RtExtras, xc \in {"GBP", "JPY"}}
  \cup
  {[ok |-> TRUE, date |-> d, cmd |-> "DIVIDEND", ticker |-> t, f |-> [qty |-> "", amount |-> a, cur |-> cu, extra |-> e, xcur |-> xc]] :
     d \in {"2024-02-29"}, t \in {"AAA", "TAX"}, a \in RtAmts, cu \in RtCurs, e \in RtExtras, xc \in {"GBP", "JPY"}}
  \cup
  {[ok |-> TRUE, date |-> d, cmd |-> c, ticker |-> t, f |-> [qty |-> "", amount |-> a, cur |-> "", extra |-> "", xcur |-> ""]] :
     d \in {"2024-02-29"}, c \in {"SPLIT", "UNSPLIT"}, t \in {"AAA", "RATIO"}, a \in {"2", "1.5", "0.3333333333333333333333333333"}}

\* input spellings of a transaction: each currency may be left out where it is GBP; a zero clause may be spelt out
DropGbp(ts) ==   \* all variants obtained by deleting GBP currency tokens
  LET idx == {i \in 1..Len(ts) : ts[i].text = "GBP" /\ Has(ts[i], "iso")} IN
  {[j \in 1..(Len(ts) - Cardinality(S)) |->
       ts[CHOOSE i \in 1..Len(ts) : i \notin S /\ Cardinality({k \in 1..i : k \notin S}) = j]] : S \in SUBSET idx}
Spellings(tx) ==
  DropGbp(Write(tx)) \cup
  (IF tx.cmd \notin {"SPLIT", "UNSPLIT"} /\ IsZeroLit(tx.f.extra)
   THEN DropGbp(Write(tx) \o <<KW(IF tx.cmd \in {"DIVIDEND", "ACCUMULATION"} THEN "TAX" ELSE "FEES"), Num("0")>>)
   ELSE {})

Styles ==
  [kwcase : {"upper", "lower", "mixed"},       \* keywords, currency codes and tickers
   gap : {"space", "tab", "multi"},
   comment : {"none", "spaced", "tight", "keywords"},
   eol : {"lf", "crlf", "cr"},
   last : {"eol", "none"},
   filler : {"none", "blank", "comment", "spaces"}]
PlainStyle == [kwcase |-> "upper", gap |-> "space", comment |-> "none", eol |-> "lf", last |-> "eol", filler |-> "none"]
\* every site varied alone, and all pairs of sites
NearPlain(k) == {s \in Styles : Cardinality({x \in DOMAIN s : s[x] # PlainStyle[x]}) <= k}
\* ... plus the combinations in which a comment has to end at a CR or CRLF line ending
CommentAtEol == {s \in Styles : s.eol \in {"cr", "crlf"} /\ (s.comment # "none" \/ s.filler = "comment")
                                 /\ s.kwcase = "upper" /\ s.gap = "space"}

Junk == Tok("%%", {})
Corrupt(ts, kind, i) ==
  CASE kind = "delete" -> SubSeq(ts, 1, i - 1) \o SubSeq(ts, i + 1, Len(ts))
    [] kind = "dup" -> SubSeq(ts, 1, i) \o SubSeq(ts, i, Len(ts))
    [] kind = "junk" -> [ts EXCEPT ![i] = Junk]
    [] kind = "swap" -> IF i < Len(ts) THEN [ts EXCEPT ![i] = ts[i + 1], ![i + 1] = ts[i]] ELSE ts

\* JSON spellings of a transaction accepted on input (MCP tools, serde): money as a plain string or number (GBP only)
\* or as an {amount, currency} object; action and ticker in any letter case; a zero fee/tax left out or spelt out;
\* CAP_RETURN as an alias of CAPRETURN
JsonShapes == [money : {"string", "object", "number"}, action : {"upper", "lower", "mixed"}, ticker : {"upper", "lower"},
               zero_clause : {"omit", "spell"}, capret : {"CAPRETURN", "CAP_RETURN"}]
IsIntLit(x) == x \in {"7", "0", "10", "2"}
ShapeApplies(tx, sh) ==
  /\ (sh.capret = "CAP_RETURN" => tx.cmd = "CAPRETURN")
  /\ (sh.zero_clause = "spell" => (tx.cmd \notin {"SPLIT", "UNSPLIT"} /\ IsZeroLit(tx.f.extra)))
  /\ (sh.money = "number" => (tx.cmd \notin {"SPLIT", "UNSPLIT"} /\ tx.f.cur = "GBP" /\ IsIntLit(tx.f.amount)))
  /\ (sh.money = "string" => (tx.cmd \in {"SPLIT", "UNSPLIT"} \/ tx.f.cur = "GBP"))

CONSTANT Mode, StyleDepth     \* "styles" | "corrupt" | "roundtrip" | "json"

Init ==
  \/ /\ Mode = "styles"
     /\ \E tx \in TxSet, s \in NearPlain(StyleDepth) \cup CommentAtEol : \E sp \in Spellings(tx) :
          line = sp /\ base = tx /\ style = s /\ corr = <<>>
  \/ /\ Mode = "corrupt"
     /\ \E tx \in {t \in TxSet : t.ticker = "AAA" /\ t.f.qty \in {"10", ""} /\ t.f.amount \in {"150.00", "2"}},
           kind \in {"delete", "dup", "junk", "swap"}, s \in NearPlain(1) : \E sp \in Spellings(tx) : \E i \in 1..Len(sp) :
          line = Corrupt(sp, kind, i) /\ base = tx /\ style = s /\ corr = <<kind, i>>
  \/ /\ Mode = "json"
     /\ \E tx \in {t \in TxSet : t.ticker = "AAA" /\ t.cmd = "SPLIT" /\ t.f.amount = "2"} : line = Write(tx) /\ base = tx /\ style = PlainStyle /\ corr = <<>>
  \/ /\ Mode = "roundtrip"
     /\ \E tx \in RtTxSet : line = Write(tx) /\ base = tx /\ style = PlainStyle /\ corr = <<>>
JsonCases == {<<tx, sh>> \in TxSet \X JsonShapes : ShapeApplies(tx, sh)}
EmitJson ==
  Mode = "json" =>
    \A c \in JsonCases : PrintT(<<"JSN", ToJson([meaning |-> Normal(c[1]), shape |-> c[2]])>>)
ASSUME EmitJson
Next == UNCHANGED vars
Spec == Init /\ [][Next]_vars

\* C13 on the specification: every spelling of a transaction means that transaction (GBP default, zero default)
SpellingMeansTx == corr = <<>> => LET p == ParseLine(line) IN p.ok /\ Normal(p) = Normal(base)
\* C14 on the specification
WriterRoundTrips == Mode = "roundtrip" => RoundTrips(base) /\ Idempotent(base)

Emit ==
  LET p == ParseLine(line) IN
  PrintT(<<"DSL", ToJson([tokens |-> [i \in 1..Len(line) |-> [text |-> line[i].text, letters |-> (line[i].cls \cap {"kw", "iso", "alnum"}) # {} /\ "dec" \notin line[i].cls]],
                         style |-> style, corr |-> corr, mode |-> Mode,
                         accept |-> p.ok,
                         meaning |-> IF p.ok THEN Normal(p) ELSE <<>>,
                         written |-> IF Mode = "roundtrip" THEN [i \in 1..Len(Write(base)) |-> Write(base)[i].text] ELSE <<>>])>>)
=============================================================================
