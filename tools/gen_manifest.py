#!/usr/bin/env python3
"""Regenerates /verif/MANIFEST.json from the table below (one place to keep it valid)."""
import json, subprocess, os
V = '/verif'
props = [json.loads(l)['id'] for l in open(f'{V}/properties.jsonl')]
hooks = subprocess.run(['git', '-C', '/repo', 'log', '--format=%h %s', '--grep=^verif hooks'], capture_output=True, text=True).stdout.strip().splitlines()
LEVEL = ('TLC checks the property\'s invariants / action properties on every state of the bounded TLA+ model, every enumerated '
         'behaviour is executed against the real code, and the outcome is compared with the specification\'s (or, for laws '
         'between two runs, the relation TLC verified on the specification is demanded of two implementation runs)')
NOTE = 'bounded model (constants in spec/cfg/*.cfg); TLC, the Rust harness (number codec, renderer) and rust_decimal are trusted'
CHECKS = {
 'C01': ('tlc-cgt', 'TLA+ spec Cgt.tla (matcher state machine) model-checked with TLC; spec->impl replay of every TLC behaviour (legs, costs, proceeds, gains) at several base dates and line orders; implementation-shaped machines Matcher.tla (day cells) and Lines.tla (transaction lines of several securities in file order) model-checked to refine Cgt.tla (MC_Matcher, MC_Lines: every line order) and replayed exactly; traces recorded from the real matcher (verif hooks) validated by TLC against CgtTrace.tla'),
 'C02': ('tlc-cgt', 'TLA+ spec Cgt.tla conservation invariants model-checked with TLC; the same equalities evaluated on the implementation\'s report for every TLC behaviour; the same invariants (model-checked in the bounded families) evaluated on the implementation\'s report for seeded ledgers of 60-140 lines of one security (long_q)'),
 'C03': ('tlc-cgt', 'TLA+ spec Cgt.tla CostConserved invariant model-checked; replay of every behaviour; for cost-event ledgers a second TLC pass (Obs_Cgt.tla) re-runs the spec on the apportionment recorded by the verif hooks and compares legs and pools exactly; the same invariants (model-checked in the bounded families) evaluated on the implementation\'s report for seeded ledgers of 60-140 lines of one security (long_q)'),
 'C04': ('tlc-report', 'TLA+ spec Report.tla / MC_Report.tla (per-year totals, exemption look-up) model-checked; per-year totals and identities compared on the real TaxReport'),
 'C05': ('tlc-cgt', 'TLA+ spec Cgt.tla (CheckHolding / FailIffUncovered) model-checked over covered and uncovered ledgers alike; accept/refuse and error text compared for every TLC behaviour; line-level machine Lines.tla (refinement onto Cgt.tla, exact replay incl. files padded past every size threshold); the same invariants (model-checked in the bounded families) evaluated on the implementation\'s report for seeded ledgers of 60-140 lines of one security (long_q)'),
 'C06': ('tlc-cgt', 'TLC-enumerated cell ledgers rendered as many line orders / fill splittings / ticker cases; implementation run compared with implementation run and with the spec outcome'),
 'C07': ('tlc-report', 'TLA+ Calendar.tla: every date 1899-12-31..2101-12-31 is a TLC state (partition invariant) replayed through three derivations in the code; MC_Report slices vs all-years report'),
 'C08': ('tlc-fx', 'TLA+ spec Fx.tla (load / convert state machine) model-checked with TLC; every behaviour replayed through cgt-money + calculate and a sample through the cgt-tool binary; GBP-twin law'),
 'C09': ('tlc-cgt', 'TLA+ action property OthersUntouched + two-instance projection law (MC_CgtLaw) model-checked; implementation compared with itself on each security\'s projection'),
 'C10': ('tlc-cgt', 'TLA+ two-instance laws (MC_CgtLaw: rescale, split+unsplit) model-checked with TLC; the same relation demanded of two implementation runs; split families replayed against the spec'),
 'C11': ('tlc-cgt', 'TLA+ spec Cgt.tla cost events (nondeterministic apportionment, s122 refusal) model-checked; TLC observation pass (Obs_Cgt.tla) judges the apportionment recorded by the verif hooks; the implementation-shaped pre-pass of Matcher.tla (refinement onto Cgt.tla checked by TLC) fixes the apportionment exactly and the per-lot spread recorded by the hooks must equal it'),
 'C13': ('tlc-dsl', 'TLA+ recogniser/meaning function Dsl.tla (written from the README syntax table) evaluated by TLC over every command shape x lexical style x single-token corruption; verdicts compared with the real pest parser incl. error position'),
 'C14': ('tlc-dsl', 'TLA+ Dsl.tla writer/parser round-trip theorems (RoundTrips, Idempotent) checked by TLC; the real DSL writer byte-compared with the spec Write, parsed back, and round-tripped through serde JSON'),
 'C15': ('tlc-cli', 'TLA+ step machine Cli.tla (every command x fault placement; FailureIsClean, DefaultPdfNeverClobbers) model-checked; every scenario staged on disk and run through the real binary; Validator.tla rule and magnitude-class totality replayed in-process'),
 'C16': ('tlc-det', 'TLA+ Determinism.tla: comparators proved strict total orders on every key set by TLC (any hash order sorts to one output); ledgers for those key sets run repeatedly in fresh processes: byte-identical and canonically ordered'),
 'C17': ('tlc-format', 'TLA+ Format.tla (RoundPence, Gbp, labels, echoes of transactions and asset events in their own currency, summary / detail / holdings cells) evaluated by TLC for every midpoint and magnitude boundary; strings compared with the plain-text, JSON and PDF (text runs via verif hook) front-ends; MCP figures against the CLI'),
 'C18': ('tlc-schwab', 'TLA+ two-pass machine Schwab.tla model-checked over every export of <= 3/4 rows (invariants: cancel-one, nothing silent, totals); real converter output parsed and compared, row-order and chunking laws'),
 'C19': ('tlc-schwab', 'TLA+ Awards.tla look-up evaluated by TLC over every awards file of <= 2/3 entries around the deposit; real converter compared at 5 base dates'),
 'C20': ('tlc-mcp', 'TLA+ Mcp.tla model-checked (safety + liveness, all interleavings); sessions recorded from the real `cgt-tool mcp` process validated by TLC against the spec (McpTrace.tla) with binding self-tests'),
 'C12': ('tlc-cgt', 'TLA+ two-instance extension law (MC_CgtLaw: prefix vs prefix + later transactions) model-checked with TLC; the same relation demanded of two implementation runs, also across a leap-year end'),
}
ENGINES_EXTRA = [
 ('tlc-dsl', 'spec/Dsl.tla', 'TLA+ Dsl.tla token-level recogniser / writer with generator MC_Dsl.tla; TLC + Rust replay (replay_dsl)'),
 ('tlc-cli', 'spec/Cli.tla', 'TLA+ Cli.tla / Validator.tla with MC_Cli.tla, MC_Misc.tla; TLC + process-level replay of the cgt-tool binary (lib/vcheck/cli.py) + replay_misc'),
 ('tlc-det', 'spec/Determinism.tla', 'TLA+ Determinism.tla with MC_Determinism.tla; TLC + repeated fresh-process runs (lib/vcheck/det.py)'),
 ('tlc-format', 'spec/Format.tla', 'TLA+ Format.tla with MC_Format.tla; TLC + Rust replay (replay_format) incl. PDF text runs'),
 ('tlc-schwab', 'spec/Schwab.tla', 'TLA+ Schwab.tla / Awards.tla with MC_Schwab.tla, MC_Awards.tla; TLC + Rust replay (replay_schwab)'),
 ('tlc-mcp', 'spec/Mcp.tla', 'TLA+ Mcp.tla with MC_Mcp.tla and trace specification McpTrace.tla; TLC trace validation of sessions recorded from the real server (lib/vcheck/mcp.py)'),
]
ENGINES = [
 {'name': 'tlc-cgt', 'path': 'spec/Cgt.tla', 'serves_properties': [p for p, (e, _) in CHECKS.items() if e == 'tlc-cgt'],
  'kind_free_text': 'TLA+ state machine of the share matcher (Cgt.tla) with generator MC_Cgt.tla, two-instance law model MC_CgtLaw.tla, observation pass Obs_Cgt.tla, trace specification CgtTrace.tla, the implementation-shaped machine Matcher.tla with its refinement model MC_Matcher.tla and the line-level machine Lines.tla (several securities, every line order) with its refinement model MC_Lines.tla; TLC + Rust replay / recording harness (harness/cgtv: replay_cgt, replay_law, replay_lines, record_cgt)'},
 {'name': 'tlc-report', 'path': 'spec/Report.tla', 'serves_properties': [p for p, (e, _) in CHECKS.items() if e == 'tlc-report'],
  'kind_free_text': 'TLA+ Report.tla / Calendar.tla with MC_Report.tla and MC_Calendar.tla; TLC + Rust replay harness'},
 {'name': 'tlc-fx', 'path': 'spec/Fx.tla', 'serves_properties': [p for p, (e, _) in CHECKS.items() if e == 'tlc-fx'],
  'kind_free_text': 'TLA+ Fx.tla load/convert state machine with MC_Fx.tla; TLC + Rust replay harness incl. the cgt-tool binary'},
]
for n, path, txt in ENGINES_EXTRA:
    ENGINES.append({'name': n, 'path': path, 'serves_properties': [p for p, (e, _) in CHECKS.items() if e == n], 'kind_free_text': txt})
checks = []
for p in props:
    if p not in CHECKS:
        continue
    e, tech = CHECKS[p]
    checks.append({'property_id': p, 'quick_cmd': f'./bin/check {p} --tier quick', 'thorough_cmd': f'./bin/check {p} --tier thorough',
                   'evidence_file': f'/verif/evidence/{p}.json', 'replay_cmd_template': f'./bin/check {p} --replay {{path}}', 'engine': e,
                   'level_claimed': {'category': 'model_checking', 'text': LEVEL, 'design_ref': 'DESIGN.md §5'},
                   'level_note': NOTE, 'technique': tech})
na = [{'property_id': p, 'reason': 'check not built yet (in progress; see DESIGN.md §5)'} for p in props if p not in CHECKS]
m = {'version': 1, 'setup_cmd': './bin/setup',
     'hooks': {'guard': 'verif', 'enable': 'cargo feature `verif` on cgt-core (and cgt-formatter-pdf), enabled by the harness as a path-dependency feature',
               'baseline_off_cmd': 'cd /repo && cargo test --workspace --no-fail-fast --offline',
               'source_commits': [h.split()[0] for h in hooks], 'add_only': True},
     'engines': ENGINES, 'checks': checks, 'notes': 'see DESIGN.md; known findings in KNOWN_FINDINGS.json', 'not_applicable': na}
json.dump(m, open(f'{V}/MANIFEST.json', 'w'), indent=1)
print(len(checks), 'checks;', len(na), 'not claimed')
