#!/usr/bin/env python3
"""Regenerates /verif/MANIFEST.json from the table below (one place to keep it valid)."""
import json, subprocess, os
V = '/verif'
props = [json.loads(l)['id'] for l in open(f'{V}/properties.jsonl')]
hooks = subprocess.run(['git', '-C', '/repo', 'log', '--format=%h %s', '--grep=^verif hooks'], capture_output=True, text=True).stdout.strip().splitlines()
LEVEL = ('TLC checks the property\'s invariants / action properties on every state of the bounded TLA+ model, every enumerated '
         'behaviour is executed against the real code, and the outcome is compared with the specification\'s (or, for laws '
         'between two runs, the relation TLC verified on the specification is demanded of two implementation runs)')
NOTE = 'bounded model (constants in spec/cfg/*.cfg); TLC, the Rust harness (number codec, renderer) and rust_decimal are trusted'
CHECKS = {
 'C01': ('tlc-cgt', 'TLA+ spec Cgt.tla (matcher state machine) model-checked with TLC; spec->impl replay of every TLC behaviour (legs, costs, proceeds, gains) at several base dates and line orders'),
 'C02': ('tlc-cgt', 'TLA+ spec Cgt.tla conservation invariants model-checked with TLC; the same equalities evaluated on the implementation\'s report for every TLC behaviour'),
 'C03': ('tlc-cgt', 'TLA+ spec Cgt.tla CostConserved invariant model-checked; replay of every behaviour; for cost-event ledgers a second TLC pass (Obs_Cgt.tla) re-runs the spec on the apportionment recorded by the verif hooks and compares legs and pools exactly'),
 'C04': ('tlc-report', 'TLA+ spec Report.tla / MC_Report.tla (per-year totals, exemption look-up) model-checked; per-year totals and identities compared on the real TaxReport'),
 'C05': ('tlc-cgt', 'TLA+ spec Cgt.tla (CheckHolding / FailIffUncovered) model-checked over covered and uncovered ledgers alike; accept/refuse and error text compared for every TLC behaviour'),
 'C06': ('tlc-cgt', 'TLC-enumerated cell ledgers rendered as many line orders / fill splittings / ticker cases; implementation run compared with implementation run and with the spec outcome'),
 'C07': ('tlc-report', 'TLA+ Calendar.tla: every date 1899-12-31..2101-12-31 is a TLC state (partition invariant) replayed through three derivations in the code; MC_Report slices vs all-years report'),
 'C08': ('tlc-fx', 'TLA+ spec Fx.tla (load / convert state machine) model-checked with TLC; every behaviour replayed through cgt-money + calculate and a sample through the cgt-tool binary; GBP-twin law'),
 'C09': ('tlc-cgt', 'TLA+ action property OthersUntouched + two-instance projection law (MC_CgtLaw) model-checked; implementation compared with itself on each security\'s projection'),
 'C10': ('tlc-cgt', 'TLA+ two-instance laws (MC_CgtLaw: rescale, split+unsplit) model-checked with TLC; the same relation demanded of two implementation runs; split families replayed against the spec'),
 'C11': ('tlc-cgt', 'TLA+ spec Cgt.tla cost events (nondeterministic apportionment, s122 refusal) model-checked; TLC observation pass (Obs_Cgt.tla) judges the apportionment recorded by the verif hooks'),
 'C12': ('tlc-cgt', 'TLA+ two-instance extension law (MC_CgtLaw: prefix vs prefix + later transactions) model-checked with TLC; the same relation demanded of two implementation runs, also across a leap-year end'),
}
ENGINES = [
 {'name': 'tlc-cgt', 'path': 'spec/Cgt.tla', 'serves_properties': [p for p, (e, _) in CHECKS.items() if e == 'tlc-cgt'],
  'kind_free_text': 'TLA+ state machine of the share matcher (Cgt.tla) with generator MC_Cgt.tla, two-instance law model MC_CgtLaw.tla and observation pass Obs_Cgt.tla; TLC + Rust replay harness (harness/cgtv)'},
 {'name': 'tlc-report', 'path': 'spec/Report.tla', 'serves_properties': [p for p, (e, _) in CHECKS.items() if e == 'tlc-report'],
  'kind_free_text': 'TLA+ Report.tla / Calendar.tla with MC_Report.tla and MC_Calendar.tla; TLC + Rust replay harness'},
 {'name': 'tlc-fx', 'path': 'spec/Fx.tla', 'serves_properties': [p for p, (e, _) in CHECKS.items() if e == 'tlc-fx'],
  'kind_free_text': 'TLA+ Fx.tla load/convert state machine with MC_Fx.tla; TLC + Rust replay harness incl. the cgt-tool binary'},
]
checks = []
for p in props:
    if p not in CHECKS:
        continue
    e, tech = CHECKS[p]
    checks.append({'property_id': p, 'quick_cmd': f'./bin/check {p} --tier quick', 'thorough_cmd': f'./bin/check {p} --tier thorough',
                   'evidence_file': f'/verif/evidence/{p}.json', 'replay_cmd_template': f'./bin/check {p} --replay {{path}}', 'engine': e,
                   'level_claimed': {'category': 'model_checking', 'text': LEVEL, 'design_ref': 'DESIGN.md §5'},
                   'level_note': NOTE, 'technique': tech})
na = [{'property_id': p, 'reason': 'check not built yet (in progress; see DESIGN.md §5)'} for p in props if p not in CHECKS]
m = {'version': 1, 'setup_cmd': './bin/setup',
     'hooks': {'guard': 'verif', 'enable': 'cargo feature `verif` on cgt-core (and cgt-formatter-pdf), enabled by the harness as a path-dependency feature',
               'baseline_off_cmd': 'cd /repo && cargo test --workspace --no-fail-fast --offline',
               'source_commits': [h.split()[0] for h in hooks], 'add_only': True},
     'engines': ENGINES, 'checks': checks, 'notes': 'see DESIGN.md; known findings in KNOWN_FINDINGS.json', 'not_applicable': na}
json.dump(m, open(f'{V}/MANIFEST.json', 'w'), indent=1)
print(len(checks), 'checks;', len(na), 'not claimed')
