#!/bin/bash
# usage: run_seed.sh <seed-dir> <tier> <prop> [<prop>...]
# applies the seeded patch to /repo, runs the given checks, reverts /repo. Prints one line per check.
SD=$(readlink -f "$1"); shift; TIER=$1; shift
cd /repo || exit 2
if [ -n "$(git status --porcelain)" ]; then echo "/repo not clean"; exit 2; fi
if ! git apply --3way "$SD/patch.diff" >/dev/null 2>&1; then git checkout -q -- . ; git reset -q; echo "$(basename $SD): PATCH DOES NOT APPLY"; exit 3; fi
git reset -q
cd /verif
for P in "$@"; do
  out=$(./bin/check $P --tier $TIER 2>&1); rc=$?
  v=$(echo "$out" | grep -c '^VIOLATION')
  echo "$(basename $SD) $P rc=$rc violations=$v :: $(echo "$out" | grep -A1 '^VIOLATION' | grep -v '^VIOLATION' | grep -v '^--' | head -2 | cut -c1-220 | tr '\n' '|')"
done
cd /repo && git checkout -q -- . && git clean -fdq
