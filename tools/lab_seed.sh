#!/bin/bash
# usage: lab_seed.sh <seed-dir> <tier> <prop>...   (runs in the lab copy; see lab_sync.sh)
LAB=${LAB:-/tmp/lab}
SD=$(readlink -f "$1"); shift; TIER=$1; shift
cd $LAB/repo || exit 2
git checkout -q -- . ; git clean -fdq
if ! git apply --3way "$SD/patch.diff" >/dev/null 2>&1; then git checkout -q -- . ; git reset -q; echo "$(basename $SD): PATCH DOES NOT APPLY"; exit 3; fi
git reset -q
cd $LAB/verif
export VERIF_REPO=$LAB/repo
for P in "$@"; do
  out=$(./bin/check $P --tier $TIER 2>&1); rc=$?
  v=$(echo "$out" | grep -c '^VIOLATION')
  echo "$(basename $SD) $P rc=$rc violations=$v :: $(echo "$out" | grep -A1 '^VIOLATION' | grep -v '^VIOLATION' | grep -v '^--' | head -2 | cut -c1-200 | tr '\n' '|')"
done
cd $LAB/repo && git checkout -q -- . && git clean -fdq
