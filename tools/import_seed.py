#!/usr/bin/env python3
"""usage: import_seed.py <seed-out-dir> <new-id>  -- copy a confirmed seeded change into /verif/seeded/<new-id>/"""
import json, os, shutil, sys
src, new = sys.argv[1].rstrip('/'), sys.argv[2]
conf = json.load(open(os.path.join(src, 'confirm.json')))
ok = conf['clean_demo_rc'] == 0 and conf['patched_demo_rc'] not in (0, -1) and conf['suite_failed'] == 0 and conf['applies']
if not ok:
    sys.exit(f'{src}: not confirmed: {conf}')
dst = os.path.join('/verif/seeded', new)
os.makedirs(dst, exist_ok=True)
for f in ('patch.diff', 'notes.md'):
    shutil.copy(os.path.join(src, f), os.path.join(dst, f))
if os.path.isdir(os.path.join(dst, 'demo')):
    shutil.rmtree(os.path.join(dst, 'demo'))
shutil.copytree(os.path.join(src, 'demo'), os.path.join(dst, 'demo'))
prop = new[:3]
title = next(json.loads(l)['title'] for l in open('/verif/properties.jsonl') if json.loads(l)['id'] == prop)
meta = {'id': new, 'property': prop, 'property_title': title, 'wave': int(os.environ.get('WAVE', '2')),
        'written_by': 'independent sub-agent given only the property text and a scratch worktree of /repo (nothing from /verif), asked for less obvious sites than wave 1',
        'needs_to_manifest': 'see notes.md (trigger section)',
        'confirmed': {'demo_passes_on_clean_tree': True, 'demo_fails_with_patch': True, 'existing_suite_passes_with_patch': True, 'patch_applies_to_repo_head': True},
        'how_confirmed': 'tools/confirm_seed.sh: scratch worktree of /repo HEAD; demo/run.sh on the clean tree (exit 0), git apply patch.diff, demo/run.sh again (non-zero), cargo test --workspace --no-fail-fast --offline (no failures); worktree removed afterwards',
        'ported': False}
json.dump(meta, open(os.path.join(dst, 'meta.json'), 'w'), indent=1)
print('imported', new)
