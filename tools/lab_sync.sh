#!/bin/bash
# Mirror /verif into $LAB/verif (own harness target dir) bound to a scratch worktree $LAB/repo of /repo's HEAD,
# so that seeded changes can be tried without touching /repo.
set -e
LAB=${LAB:-/tmp/lab}
mkdir -p $LAB
if [ ! -d $LAB/repo ]; then git -C /repo worktree add -q --detach $LAB/repo HEAD; fi
git -C $LAB/repo checkout -q -- . ; git -C $LAB/repo clean -fdq; git -C $LAB/repo checkout -q --detach $(git -C /repo rev-parse HEAD)
rsync -a --delete --exclude harness/target --exclude work --exclude replays --exclude .git --exclude evidence --exclude states /verif/ $LAB/verif/
mkdir -p $LAB/verif/evidence
sed -i "s#\"/repo/#\"$LAB/repo/#g" $LAB/verif/harness/cgtv/Cargo.toml
echo synced
