#!/bin/bash
# Mirror /verif into /tmp/lab/verif (own harness target dir) bound to a scratch worktree /tmp/lab/repo of /repo's HEAD,
# so that seeded changes can be tried without touching /repo.
set -e
mkdir -p /tmp/lab
if [ ! -d /tmp/lab/repo ]; then git -C /repo worktree add -q --detach /tmp/lab/repo HEAD; fi
git -C /tmp/lab/repo checkout -q -- . ; git -C /tmp/lab/repo clean -fdq; git -C /tmp/lab/repo checkout -q --detach $(git -C /repo rev-parse HEAD)
rsync -a --delete --exclude harness/target --exclude work --exclude replays --exclude .git --exclude evidence /verif/ /tmp/lab/verif/
mkdir -p /tmp/lab/verif/evidence
sed -i 's#"/repo/#"/tmp/lab/repo/#g' /tmp/lab/verif/harness/cgtv/Cargo.toml
echo synced
