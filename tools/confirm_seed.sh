#!/bin/bash
# usage: confirm_seed.sh <seed-dir> ; confirms (1) demo passes on clean tree (2) fails with patch (3) full suite passes with patch
# Uses a scratch worktree of /repo under /tmp/cs and a shared target dir; removes the worktree afterwards.
set -u
SD=$(readlink -f "$1"); ID=$(basename "$SD")
WT=/tmp/cs/$ID
export CARGO_TARGET_DIR=/tmp/cs_target CARGO_NET_OFFLINE=true
mkdir -p /tmp/cs /tmp/cs_tmp_$ID
export TMPDIR=/tmp/cs_tmp_$ID
git -C /repo worktree remove --force "$WT" >/dev/null 2>&1
git -C /repo worktree add -q --detach "$WT" HEAD || exit 2
res() { echo "{\"id\":\"$ID\",\"clean_demo_rc\":$1,\"patched_demo_rc\":$2,\"suite_failed\":$3,\"applies\":$4}" > "$SD/confirm.json"; cat "$SD/confirm.json"; }
cd "$WT"
ln -sfn /tmp/cs_target "$WT/target"
bash "$SD/demo/run.sh" "$WT" > "$SD/confirm_clean.log" 2>&1; C=$?
git checkout -q -- . ; git clean -fdq -e target
if ! git apply --3way "$SD/patch.diff" > "$SD/confirm_apply.log" 2>&1; then res $C -1 -1 false; cd /; git -C /repo worktree remove --force "$WT"; exit 1; fi
git reset -q
bash "$SD/demo/run.sh" "$WT" > "$SD/confirm_patched.log" 2>&1; P=$?
git status --short | grep -v '^ M' | awk '{print $2}' | grep -v '^target' | xargs -r rm -rf
cargo test --workspace --no-fail-fast --offline -j 8 > "$SD/confirm_suite.log" 2>&1
F=$(grep -c "^test .* FAILED\|^error" "$SD/confirm_suite.log")
res $C $P $F true
cd /; git -C /repo worktree remove --force "$WT"; rm -rf /tmp/cs_tmp_$ID
