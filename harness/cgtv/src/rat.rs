//! Exact rationals (i128) and the codec between them and `rust_decimal::Decimal`.

use rust_decimal::Decimal;
use serde::{Deserialize, Serialize};

#[derive(Debug, Clone, Copy, PartialEq, Eq, Serialize, Deserialize)]
#[serde(from = "[i64; 2]", into = "[i64; 2]")]
pub struct Rat {
    pub n: i128,
    pub d: i128,
}

impl From<[i64; 2]> for Rat {
    fn from(v: [i64; 2]) -> Self {
        Rat::new(v[0] as i128, v[1] as i128)
    }
}
impl From<Rat> for [i64; 2] {
    fn from(r: Rat) -> Self {
        [r.n as i64, r.d as i64]
    }
}

fn gcd(a: i128, b: i128) -> i128 {
    let (mut a, mut b) = (a.abs(), b.abs());
    while b != 0 {
        let t = a % b;
        a = b;
        b = t;
    }
    a
}

impl Rat {
    pub const ZERO: Rat = Rat { n: 0, d: 1 };
    pub const ONE: Rat = Rat { n: 1, d: 1 };
    pub fn new(n: i128, d: i128) -> Rat {
        assert!(d != 0);
        if n == 0 {
            return Rat::ZERO;
        }
        let g = gcd(n, d);
        let s = if d < 0 { -1 } else { 1 };
        Rat { n: s * n / g, d: s * d / g }
    }
    pub fn int(n: i64) -> Rat {
        Rat { n: n as i128, d: 1 }
    }
    pub fn add(self, o: Rat) -> Rat {
        Rat::new(self.n * o.d + o.n * self.d, self.d * o.d)
    }
    pub fn sub(self, o: Rat) -> Rat {
        Rat::new(self.n * o.d - o.n * self.d, self.d * o.d)
    }
    pub fn mul(self, o: Rat) -> Rat {
        Rat::new(self.n * o.n, self.d * o.d)
    }
    pub fn div(self, o: Rat) -> Rat {
        Rat::new(self.n * o.d, self.d * o.n)
    }
    pub fn is_zero(self) -> bool {
        self.n == 0
    }
    pub fn is_pos(self) -> bool {
        self.n > 0
    }
    pub fn lt(self, o: Rat) -> bool {
        self.n * o.d < o.n * self.d
    }
    pub fn le(self, o: Rat) -> bool {
        self.n * o.d <= o.n * self.d
    }
    /// Exact decimal if the denominator is 2^a 5^b, else the nearest 28-digit decimal.
    pub fn to_decimal(self) -> Decimal {
        Decimal::from_i128_with_scale(self.n, 0) / Decimal::from_i128_with_scale(self.d, 0)
    }
    pub fn is_decimal_exact(self) -> bool {
        let mut d = self.d;
        while d % 2 == 0 {
            d /= 2;
        }
        while d % 5 == 0 {
            d /= 5;
        }
        d == 1
    }
    /// |x - self| <= tol, computed as |x*d - n| <= tol*d in Decimal arithmetic.
    pub fn close_to(self, x: Decimal, tol: Decimal) -> bool {
        let d = Decimal::from_i128_with_scale(self.d, 0);
        let n = Decimal::from_i128_with_scale(self.n, 0);
        match x.checked_mul(d) {
            Some(xd) => (xd - n).abs() <= tol * d,
            None => false,
        }
    }
    pub fn show(self) -> String {
        if self.d == 1 { format!("{}", self.n) } else { format!("{}/{}", self.n, self.d) }
    }
}

/// Tolerance for full-precision figures (DESIGN §4): 1e-12.
pub fn tol() -> Decimal {
    Decimal::new(1, 12)
}
/// Tolerance for disposal-level proceeds, which the code rounds to 10 dp: 1e-9.
pub fn tol_proceeds() -> Decimal {
    Decimal::new(1, 9)
}

/// The unique rational with denominator <= max_den within 1e-18 of `x`, if any
/// (continued fractions).  Used to hand implementation values to TLC exactly.
pub fn snap(x: Decimal, max_den: i128) -> Option<Rat> {
    // x = m / 10^s
    let s = x.scale();
    let m = x.mantissa();
    let mut num = m;
    let mut den = 10i128.pow(s);
    let g = gcd(num, den);
    if g != 0 {
        num /= g;
        den /= g;
    }
    if den <= max_den {
        return Some(Rat::new(num, den));
    }
    // continued fraction convergents of num/den
    let neg = num < 0;
    let (mut a, mut b) = (num.abs(), den);
    let (mut h0, mut h1) = (0i128, 1i128);
    let (mut k0, mut k1) = (1i128, 0i128);
    let mut best: Option<Rat> = None;
    while b != 0 {
        let q = a / b;
        let h2 = q.checked_mul(h1)?.checked_add(h0)?;
        let k2 = q.checked_mul(k1)?.checked_add(k0)?;
        if k2 > max_den {
            break;
        }
        best = Some(Rat::new(if neg { -h2 } else { h2 }, k2));
        h0 = h1;
        h1 = h2;
        k0 = k1;
        k1 = k2;
        let t = a % b;
        a = b;
        b = t;
    }
    let r = best?;
    if r.close_to(x, Decimal::new(1, 18)) { Some(r) } else { None }
}
