//! Cell ledgers as printed by MC_Cgt (REPLAY lines) and their rendering as
//! concrete transaction lists for the implementation.

use crate::rat::Rat;
use cgt_core::{Currency, CurrencyAmount, Operation, Transaction};
use chrono::{Duration, NaiveDate};
use rust_decimal::Decimal;
use serde::{Deserialize, Serialize};

#[derive(Debug, Clone, Deserialize, Serialize)]
pub struct Cell(pub Rat, pub Rat, pub Rat, pub Rat, pub Rat, pub Rat, pub Rat, pub Rat, pub Rat, pub Rat);
impl Cell {
    pub fn bq(&self) -> Rat { self.0 }
    pub fn bp(&self) -> Rat { self.1 }
    pub fn bf(&self) -> Rat { self.2 }
    pub fn sq(&self) -> Rat { self.3 }
    pub fn sp(&self) -> Rat { self.4 }
    pub fn sf(&self) -> Rat { self.5 }
    pub fn split(&self) -> Rat { self.6 }
    pub fn ac(&self) -> Rat { self.7 }
    pub fn cr(&self) -> Rat { self.8 }
    pub fn crf(&self) -> Rat { self.9 }
    pub fn buy_cost(&self) -> Rat { self.bq().mul(self.bp()).add(self.bf()) }
}

#[derive(Debug, Clone, Deserialize, Serialize)]
pub struct Leg(pub String, pub usize, pub String, pub usize, pub Rat, pub Rat, pub Rat, pub Rat, pub Rat);
impl Leg {
    pub fn sec(&self) -> &str { &self.0 }
    pub fn d(&self) -> usize { self.1 }
    pub fn rule(&self) -> &str { &self.2 }
    pub fn a(&self) -> usize { self.3 }
    pub fn q(&self) -> Rat { self.4 }
    pub fn cost(&self) -> Rat { self.5 }
    pub fn gross(&self) -> Rat { self.6 }
    pub fn net(&self) -> Rat { self.7 }
    pub fn gain(&self) -> Rat { self.8 }
}

#[derive(Debug, Clone, Deserialize, Serialize)]
pub struct Rec {
    pub days: Vec<i64>,
    pub secs: Vec<String>,
    pub timing: String,
    /// ledger[sec index][day index]
    pub ledger: Vec<Vec<Cell>>,
    /// dist[sec][event day][acq day] or empty
    pub dist: Vec<Vec<Vec<Rat>>>,
    pub status: String,
    pub err: serde_json::Value,
    pub uncovered: Vec<String>,
    pub legs: Vec<Leg>,
    pub pool: Vec<(Rat, Rat)>,
    /// the record comes from the implementation-shaped model: `dist` is THE apportionment, not one of many
    #[serde(default)]
    pub exact: bool,
}

impl Rec {
    pub fn n(&self) -> usize { self.days.len() }
    pub fn sec_index(&self, s: &str) -> Option<usize> { self.secs.iter().position(|x| x == s) }
    pub fn err_day(&self) -> Option<usize> {
        self.err.as_array().and_then(|a| a.get(1)).and_then(|v| v.as_u64()).map(|x| x as usize)
    }
    pub fn has_splits(&self) -> bool {
        self.ledger.iter().any(|s| s.iter().any(|c| c.split() != Rat::ONE))
    }
    pub fn has_capreturn(&self) -> bool {
        self.ledger.iter().any(|s| s.iter().any(|c| !c.cr().is_zero()))
    }
    pub fn has_events(&self) -> bool {
        self.ledger.iter().any(|s| s.iter().any(|c| !c.ac().is_zero() || !c.cr().is_zero()))
    }
    /// a security trades (buys or sells) on one of its own split days: split timing matters
    pub fn trade_on_split_day(&self) -> bool {
        self.ledger.iter().any(|s| {
            s.iter().any(|c| c.split() != Rat::ONE && (c.bq().is_pos() || c.sq().is_pos()))
        })
    }
    /// q in day-d units -> day-a units (1-based indices, d <= a), per the record's timing
    pub fn ratio(&self, si: usize, d: usize, a: usize) -> Rat {
        let mut r = Rat::ONE;
        let (lo, hi) = if self.timing == "end" { (d, a.saturating_sub(1)) } else { (d + 1, a) };
        let mut x = lo;
        while x <= hi {
            r = r.mul(self.ledger[si][x - 1].split());
            x += 1;
        }
        r
    }
    /// key identifying the input (ledger without the outcome)
    pub fn input_key(&self) -> String {
        serde_json::to_string(&(&self.days, &self.secs, &self.ledger)).unwrap_or_default()
    }
    /// total allowable expenditure of a security: purchases plus the pre-pass adjustments
    pub fn total_spent(&self, si: usize) -> Rat {
        let mut t = Rat::ZERO;
        for c in &self.ledger[si] {
            if c.bq().is_pos() {
                t = t.add(c.buy_cost());
            }
        }
        if let Some(ds) = self.dist.get(si) {
            for e in ds {
                for a in e {
                    t = t.add(*a);
                }
            }
        }
        t
    }
}

#[derive(Debug, Clone, Copy, PartialEq, Eq)]
pub enum Order {
    /// by day, then security, buy before sell before corporate actions
    Canonical,
    Reversed,
    /// within the whole file: all sells first, then the rest
    SellsFirst,
    /// corporate actions and events first inside each day
    ActionsFirst,
    Shuffled(u64),
    /// inside each day: first fills of every cell, then second fills (securities interleaved)
    Interleaved,
}

#[derive(Debug, Clone, Copy, PartialEq, Eq)]
pub enum Fills {
    One,
    /// every buy and sell cell recorded as two fills of half the quantity at p-1 / p+1, fees on the first
    Halves,
    /// as Halves, but a line of another security sits between the two fills
    HalvesSeparated,
    /// only purchases are recorded as two separated fills (sales stay one line)
    BuysSeparated,
    /// capital returns and accumulations are recorded as two same-day lines of half the amount
    EventsSplit,
}

#[derive(Debug, Clone, Copy)]
pub struct Render {
    pub base: NaiveDate,
    pub order: Order,
    pub fills: Fills,
    pub lower: bool,
    /// add cash DIVIDEND lines for every security (must change only the dividend totals)
    pub dividends: bool,
    /// render only this security's lines (C09 projection); None = all
    pub only: Option<usize>,
}

pub fn gbp(x: Rat) -> CurrencyAmount {
    CurrencyAmount::new(x.to_decimal(), Currency::GBP)
}

pub const SEP_TICKER: &str = "ZZSEP";

fn tick(s: &str, _lower: bool) -> String {
    s.to_string()
}

/// Lines of one (security, day) cell in canonical order.
fn cell_lines(sec: &str, date: NaiveDate, c: &Cell, r: &Render, out: &mut Vec<Transaction>) {
    let t = tick(sec, r.lower);
    let two = Rat::int(2);
    let mut trade = |is_buy: bool, q: Rat, p: Rat, f: Rat, out: &mut Vec<Transaction>| {
        let mk = |q: Rat, p: Rat, f: Rat| {
            let (amount, price, fees) = (q.to_decimal(), gbp(p), gbp(f));
            Transaction {
                date,
                ticker: t.clone(),
                operation: if is_buy {
                    Operation::Buy { amount, price, fees }
                } else {
                    Operation::Sell { amount, price, fees }
                },
            }
        };
        let fills = if r.fills == Fills::BuysSeparated { if is_buy { Fills::HalvesSeparated } else { Fills::One } } else { r.fills };
        match fills {
            Fills::One | Fills::BuysSeparated | Fills::EventsSplit => out.push(mk(q, p, f)),
            Fills::Halves | Fills::HalvesSeparated => {
                let h = q.div(two);
                // equal total consideration: h(p-d) + h(p+d) = q p ; d < p keeps prices positive
                // (3/2, not 1: with integer fees the per-leg effect h*d of the price difference can then never equal the
                // fee share f/2 and cancel it)
                let d = if Rat::new(3, 2).lt(p) { Rat::new(3, 2) } else { p.div(two) };
                // the fees go with the dearer fill, so the two fills never cost the same per share
                out.push(mk(h, p.sub(d), Rat::ZERO));
                if fills == Fills::HalvesSeparated {
                    out.push(Transaction {
                        date,
                        ticker: SEP_TICKER.to_string(),
                        operation: Operation::Buy {
                            amount: Decimal::ONE,
                            price: gbp(Rat::int(5)),
                            fees: gbp(Rat::ZERO),
                        },
                    });
                }
                out.push(mk(h, p.add(d), f));
            }
        }
    };
    if c.bq().is_pos() {
        trade(true, c.bq(), c.bp(), c.bf(), out);
    }
    if c.sq().is_pos() {
        trade(false, c.sq(), c.sp(), c.sf(), out);
    }
    if c.split() != Rat::ONE {
        let s = c.split();
        let op = if s.n >= s.d {
            Operation::Split { ratio: s.to_decimal() }
        } else {
            Operation::Unsplit { ratio: Rat::new(s.d, s.n).to_decimal() }
        };
        out.push(Transaction { date, ticker: t.clone(), operation: op });
    }
    let parts: Vec<(Rat, bool)> = if r.fills == Fills::EventsSplit { vec![(Rat::new(1, 2), true), (Rat::new(1, 2), false)] } else { vec![(Rat::ONE, true)] };
    for (share, first) in &parts {
        if !c.cr().is_zero() {
            out.push(Transaction {
                date,
                ticker: t.clone(),
                operation: Operation::CapReturn { amount: Decimal::ONE, total_value: gbp(c.cr().mul(*share)), fees: gbp(if *first { c.crf() } else { Rat::ZERO }) },
            });
        }
    }
    for (share, _) in &parts {
        if !c.ac().is_zero() {
            out.push(Transaction {
                date,
                ticker: t.clone(),
                operation: Operation::Accumulation { amount: Decimal::ONE, total_value: gbp(c.ac().mul(*share)), tax_paid: gbp(Rat::new(1, 4)) },
            });
        }
    }
}

pub fn date_of(rec: &Rec, base: NaiveDate, day_idx: usize) -> NaiveDate {
    base + Duration::days(rec.days[day_idx - 1])
}

fn is_sell(t: &Transaction) -> bool { matches!(t.operation, Operation::Sell { .. }) }
fn is_trade(t: &Transaction) -> bool { matches!(t.operation, Operation::Sell { .. } | Operation::Buy { .. }) }

pub fn render(rec: &Rec, r: &Render) -> Vec<Transaction> {
    let mut out = Vec::new();
    for d in 1..=rec.n() {
        let date = date_of(rec, r.base, d);
        for (si, sec) in rec.secs.iter().enumerate() {
            if r.only.map(|o| o != si).unwrap_or(false) { continue; }
            cell_lines(sec, date, &rec.ledger[si][d - 1], r, &mut out);
        }
    }
    if r.dividends {
        for (k, sec) in rec.secs.iter().enumerate() {
            for d in [1, rec.n()] {
                out.push(Transaction {
                    date: date_of(rec, r.base, d),
                    ticker: tick(sec, r.lower),
                    operation: Operation::Dividend { total_value: gbp(Rat::int(7 + k as i64)), tax_paid: gbp(Rat::int(1)) },
                });
            }
        }
    }
    match r.order {
        Order::Canonical => {}
        Order::Reversed => out.reverse(),
        Order::SellsFirst => {
            let (a, b): (Vec<_>, Vec<_>) = out.into_iter().partition(is_sell);
            out = a;
            out.extend(b);
        }
        Order::ActionsFirst => {
            let (a, b): (Vec<_>, Vec<_>) = out.into_iter().partition(|t| !is_trade(t));
            out = a;
            out.extend(b);
        }
        Order::Interleaved => {
            // stable: by date, then by occurrence number of the (ticker, kind) pair within the day
            let mut seen: std::collections::HashMap<(NaiveDate, String, bool), usize> = std::collections::HashMap::new();
            let mut keyed: Vec<(NaiveDate, usize, usize, Transaction)> = Vec::new();
            for (i, t) in out.into_iter().enumerate() {
                let k = (t.date, t.ticker.clone(), is_sell(&t));
                let n = seen.entry(k).or_insert(0);
                *n += 1;
                keyed.push((t.date, *n, i, t));
            }
            keyed.sort_by_key(|x| (x.0, x.1, x.2));
            out = keyed.into_iter().map(|x| x.3).collect();
        }
        Order::Shuffled(seed) => {
            use rand::SeedableRng;
            use rand::seq::SliceRandom;
            let mut rng = rand::rngs::StdRng::seed_from_u64(seed);
            out.shuffle(&mut rng);
        }
    }
    out
}

fn money(a: &CurrencyAmount) -> String {
    format!("{} {}", a.amount.normalize(), a.code())
}

/// Plain DSL text of a transaction list, for replay files (independent of the writer under test).
pub fn to_dsl(txs: &[Transaction]) -> String {
    let mut s = String::new();
    for t in txs {
        let d = t.date.format("%Y-%m-%d");
        let line = match &t.operation {
            Operation::Buy { amount, price, fees } => {
                format!("{d} BUY {} {} @ {} FEES {}", t.ticker, amount.normalize(), money(price), money(fees))
            }
            Operation::Sell { amount, price, fees } => {
                format!("{d} SELL {} {} @ {} FEES {}", t.ticker, amount.normalize(), money(price), money(fees))
            }
            Operation::Dividend { total_value, tax_paid } => {
                format!("{d} DIVIDEND {} TOTAL {} TAX {}", t.ticker, money(total_value), money(tax_paid))
            }
            Operation::Accumulation { amount, total_value, tax_paid } => format!(
                "{d} ACCUMULATION {} {} TOTAL {} TAX {}",
                t.ticker, amount.normalize(), money(total_value), money(tax_paid)
            ),
            Operation::CapReturn { amount, total_value, fees } => format!(
                "{d} CAPRETURN {} {} TOTAL {} FEES {}",
                t.ticker, amount.normalize(), money(total_value), money(fees)
            ),
            Operation::Split { ratio } => format!("{d} SPLIT {} RATIO {}", t.ticker, ratio.normalize()),
            Operation::Unsplit { ratio } => format!("{d} UNSPLIT {} RATIO {}", t.ticker, ratio.normalize()),
        };
        s.push_str(&line);
        s.push('\n');
    }
    s
}

/// Base dates at which every behaviour is instantiated: the 30/31-day edge lands on
/// month ends, a leap day, the 5/6 April tax-year boundary and a calendar year end.
pub fn base_dates() -> Vec<NaiveDate> {
    [(2020, 1, 29), (2020, 12, 2), (2019, 1, 29), (2021, 3, 6), (2022, 12, 2), (2023, 3, 7), (2024, 1, 31), (2024, 12, 8)]
        .iter()
        .filter_map(|(y, m, d)| NaiveDate::from_ymd_opt(*y, *m, *d))
        .collect()
}

/// exemption table covering every year the harness uses
pub fn full_config() -> cgt_core::Config {
    let mut c = cgt_core::Config::default();
    for y in 1900u16..=2100 {
        c.exemptions.insert(y, Decimal::from(3000));
    }
    c
}
