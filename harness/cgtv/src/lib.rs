//! Conformance harness for the TLA+ specification of cgt-tool.
//!
//! The harness is an executor and a number codec: TLC produces the inputs and
//! the specification's outcome; this crate renders the inputs for the real
//! code, runs it, and compares what came back with what the specification
//! printed (exactly, over rationals, within the tolerance stated in DESIGN §4).

pub mod ledger;
pub mod par;
pub mod rat;
pub mod summary;
pub mod tlc;

use serde::Serialize;

/// One deviation between the specification's outcome and the implementation's.
#[derive(Debug, Clone, Serialize)]
pub struct Finding {
    /// property id the deviation is attributed to (C01 ...)
    pub prop: String,
    /// short machine-readable class, used for known-finding signatures
    pub kind: String,
    /// index of the REPLAY line / case
    pub case: usize,
    /// human-readable detail
    pub detail: String,
    /// the input as the implementation saw it (DSL text or JSON)
    pub input: String,
    /// extra structured data (expected, observed)
    pub data: serde_json::Value,
}

#[derive(Debug, Default, Clone, Serialize)]
pub struct Counters {
    pub map: std::collections::BTreeMap<String, u64>,
}
impl Counters {
    pub fn inc(&mut self, k: &str) {
        *self.map.entry(k.to_string()).or_insert(0) += 1;
    }
    pub fn add(&mut self, k: &str, n: u64) {
        *self.map.entry(k.to_string()).or_insert(0) += n;
    }
    pub fn merge(&mut self, o: &Counters) {
        for (k, v) in &o.map {
            *self.map.entry(k.clone()).or_insert(0) += v;
        }
    }
}

/// Run a closure catching panics of the code under test (a panic is data).
pub fn guarded<T>(f: impl FnOnce() -> T + std::panic::UnwindSafe) -> Result<T, String> {
    match std::panic::catch_unwind(f) {
        Ok(v) => Ok(v),
        Err(e) => {
            let msg = if let Some(s) = e.downcast_ref::<&str>() {
                s.to_string()
            } else if let Some(s) = e.downcast_ref::<String>() {
                s.clone()
            } else {
                "panic".to_string()
            };
            Err(msg)
        }
    }
}

pub fn silence_panics() {
    std::panic::set_hook(Box::new(|_| {}));
}

/// Replace every string that is a decimal number by its normalised spelling ("3.50" -> "3.5"),
/// so that two JSON reports can be compared by value rather than by decimal scale.
pub fn canon_numbers(v: &serde_json::Value) -> serde_json::Value {
    use serde_json::Value;
    use std::str::FromStr;
    match v {
        Value::String(s) => match rust_decimal::Decimal::from_str(s) {
            Ok(d) if !s.is_empty() && s.chars().all(|c| c.is_ascii_digit() || c == '.' || c == '-') => Value::String(d.normalize().to_string()),
            _ => v.clone(),
        },
        Value::Array(a) => Value::Array(a.iter().map(canon_numbers).collect()),
        Value::Object(o) => Value::Object(o.iter().map(|(k, x)| (k.clone(), canon_numbers(x))).collect()),
        _ => v.clone(),
    }
}
