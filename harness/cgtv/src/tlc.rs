//! Reading TLC output: lines of the form `<<"TAG", "json...">>` printed by PrintT.

use std::io::BufRead;

/// Extract the JSON payload of every `<<"TAG", "...">>` line in a TLC log.
pub fn tagged_lines(path: &str, tag: &str) -> std::io::Result<Vec<String>> {
    let f = std::fs::File::open(path)?;
    let rd = std::io::BufReader::with_capacity(1 << 20, f);
    let prefix = format!("<<\"{}\", \"", tag);
    let mut out = Vec::new();
    for line in rd.lines() {
        let line = line?;
        if let Some(rest) = line.strip_prefix(&prefix) {
            if let Some(body) = rest.strip_suffix("\">>") {
                out.push(unescape(body));
            }
        }
    }
    Ok(out)
}

/// Undo TLC's string printing: `\"` -> `"`, `\\` -> `\`.
pub fn unescape(s: &str) -> String {
    let mut out = String::with_capacity(s.len());
    let mut it = s.chars();
    while let Some(c) = it.next() {
        if c == '\\' {
            match it.next() {
                Some('"') => out.push('"'),
                Some('\\') => out.push('\\'),
                Some('n') => out.push_str("\\n"),
                Some('t') => out.push_str("\\t"),
                Some('r') => out.push_str("\\r"),
                Some(o) => {
                    out.push('\\');
                    out.push(o);
                }
                None => out.push('\\'),
            }
        } else {
            out.push(c);
        }
    }
    out
}
