//! Replays MC_Format (FMT / LBL lines): the figures shown by the plain-text report, the JSON
//! report and the PDF (text runs via the `verif` hook) for reports whose slots carry the
//! enumerated values (C17).
//!
//! usage: replay_format --in TLC_LOG --out FINDINGS.ndjson [--pdf-every N]

use cgt_core::{Disposal, Match, MatchRule, Section104Holding, TaxPeriod, TaxReport, TaxYearSummary};
use cgtv::{Counters, Finding, guarded};
use chrono::NaiveDate;
use rust_decimal::Decimal;
use serde::Deserialize;
use serde_json::json;
use std::io::Write;
use std::str::FromStr;

#[derive(Debug, Clone, Deserialize)]
struct Fmt {
    k: i64,
    pence: i64,
    gbp: String,
    gbp_abs: String,
    net_k: i64,
    net_pence: i64,
    net_gbp: String,
    loss_gbp: String,
    gain_gbp: String,
    proceeds_gbp: String,
    exempt_gbp: String,
    taxable_gbp: String,
    d1_gross_gbp: String,
    d1_net_gbp: String,
    fee_gbp: String,
    cost_gbp: String,
    hold_k: i64,
    hold_avg_gbp: String,
    hold2_k: i64,
    hold2_avg_gbp: String,
    unit_k: i64,
    s104_unit_gbp: String,
}

#[derive(Debug, Clone, Deserialize)]
struct Lbl {
    year: u16,
    label: String,
    date: String,
}

#[derive(Debug, Clone, Deserialize)]
struct Echo {
    pcur: String,
    fcur: String,
    price: i64,
    fee: i64,
    qty: i64,
    text_price: (String, String),
    text_fee: (String, String),
    pdf_price: String,
    pdf_fee: String,
    event_text: String,
    pdf_event: String,
    qty_text: String,
    qty_pdf: String,
}

fn symbol(name: &str) -> String {
    match name { "pound" => "£".into(), "dollar" => "$".into(), "euro" => "€".into(), other => other.to_string() }
}

/// C17, echoes of the input: every transaction and asset event is listed by the text report, the JSON report and the
/// PDF with each amount in its OWN currency (Format.tla: PriceText, CurCell, EventText, QtyText).
fn echo_checks(echos: &[Echo], cnt: &mut Counters) -> Vec<Finding> {
    use cgt_core::{Currency, CurrencyAmount, Operation, Transaction};
    let mut fs = Vec::new();
    let Some(base) = NaiveDate::from_ymd_opt(2021, 1, 1) else { return fs };
    for (ci, chunk) in echos.chunks(45).enumerate() {
        let cur = |c: &str| Currency::from_code(c).unwrap_or(Currency::GBP);
        let mut txs = Vec::new();
        for (i, e) in chunk.iter().enumerate() {
            let date = base + chrono::Duration::days(i as i64);
            let op = if i % 2 == 0 {
                Operation::Buy { amount: milli(e.qty), price: CurrencyAmount::new(milli(e.price), cur(&e.pcur)), fees: CurrencyAmount::new(milli(e.fee), cur(&e.fcur)) }
            } else {
                Operation::Sell { amount: milli(e.qty), price: CurrencyAmount::new(milli(e.price), cur(&e.pcur)), fees: CurrencyAmount::new(milli(e.fee), cur(&e.fcur)) }
            };
            txs.push(Transaction { date, ticker: "AAA".into(), operation: op });
            txs.push(Transaction { date, ticker: "AAA".into(), operation: Operation::Dividend { total_value: CurrencyAmount::new(milli(e.fee), cur(&e.fcur)), tax_paid: CurrencyAmount::new(Decimal::ZERO, Currency::GBP) } });
        }
        let report = TaxReport { tax_years: vec![], holdings: vec![], transactions: txs };
        let (r2, r3, r4) = (report.clone(), report.clone(), report.clone());
        let plain = guarded(move || cgt_formatter_plain::format(&r2)).unwrap_or_default();
        let js = guarded(move || serde_json::to_value(&r3).map_err(|e| e.to_string())).ok().and_then(|r| r.ok()).unwrap_or(json!(null));
        let pdf = guarded(move || cgt_formatter_pdf::verif_text_runs(&r4).map_err(|e| e.to_string()));
        cnt.add("executions", 3);
        let runs: Vec<String> = match pdf {
            Ok(Ok(r)) => r.iter().map(|s| s.trim().replace('\u{2212}', "-")).collect(),
            other => { fs.push(Finding { prop: "C17".into(), kind: "pdf_failed".into(), case: ci, detail: format!("PDF generation failed for the echo report: {:?}", other.map(|r| r.map(|_| ()))), input: String::new(), data: json!({}) }); Vec::new() }
        };
        for (i, e) in chunk.iter().enumerate() {
            cnt.inc("echoes");
            if e.pcur != e.fcur { cnt.inc("mixed_currency_echoes"); }
            let date = base + chrono::Duration::days(i as i64);
            let duk = date.format("%d/%m/%Y").to_string();
            let kind = if i % 2 == 0 { "BUY" } else { "SELL" };
            let mut bad = Vec::new();
            // ---- text
            let want = format!("{duk} {kind} {} AAA @ {}{} ({}{} fees)", e.qty_text, symbol(&e.text_price.0), e.text_price.1, symbol(&e.text_fee.0), e.text_fee.1);
            if !plain.lines().any(|l| l.trim() == want) {
                let got = plain.lines().find(|l| l.starts_with(&format!("{duk} {kind} "))).unwrap_or("<no such line>");
                bad.push(format!("text report lists {got:?}, expected {want:?}"));
            }
            let want_ev = format!("{duk} DIVIDEND AAA {}", pound(&e.event_text));
            if !plain.lines().any(|l| l.trim() == want_ev) {
                let got = plain.lines().find(|l| l.starts_with(&format!("{duk} DIVIDEND "))).unwrap_or("<no such line>");
                bad.push(format!("text report lists {got:?}, expected {want_ev:?}"));
            }
            // ---- JSON: full values, own currencies
            let jt = js["transactions"].as_array().and_then(|a| a.iter().find(|t| t["date"] == json!(date.to_string()) && t["action"] == json!(kind)));
            match jt {
                None => bad.push(format!("JSON report does not echo the {kind} of {date}")),
                Some(t) => {
                    let amt = |v: &serde_json::Value| v["amount"].as_str().and_then(|s| Decimal::from_str(s).ok());
                    if amt(&t["price"]) != Some(milli(e.price)) || t["price"]["currency"] != json!(e.pcur) { bad.push(format!("JSON price {} expected {} {}", t["price"], milli(e.price), e.pcur)); }
                    if amt(&t["fees"]) != Some(milli(e.fee)) || t["fees"]["currency"] != json!(e.fcur) { bad.push(format!("JSON fees {} expected {} {}", t["fees"], milli(e.fee), e.fcur)); }
                }
            }
            // ---- PDF: the row of the Transactions table and of the Asset Events table
            if !runs.is_empty() {
                let row = (0..runs.len()).find(|p| runs[*p] == duk && runs.get(p + 1).map(|s| s.as_str()) == Some(kind));
                match row {
                    None => bad.push(format!("PDF Transactions table has no {kind} row dated {duk}")),
                    Some(p) => {
                        let cell = |o: usize| runs.get(p + o).cloned().unwrap_or_default();
                        if cell(3) != e.qty_pdf { bad.push(format!("PDF quantity {:?}, expected {:?}", cell(3), e.qty_pdf)); }
                        if cell(4) != pound(&e.pdf_price) { bad.push(format!("PDF price {:?}, expected {:?} (text/JSON: {}{})", cell(4), pound(&e.pdf_price), symbol(&e.text_price.0), e.text_price.1)); }
                        if cell(5) != pound(&e.pdf_fee) { bad.push(format!("PDF fees {:?}, expected {:?} (text/JSON: {}{})", cell(5), pound(&e.pdf_fee), symbol(&e.text_fee.0), e.text_fee.1)); }
                    }
                }
                let row = (0..runs.len()).find(|p| runs[*p] == duk && runs.get(p + 1).map(|s| s.as_str()) == Some("DIVIDEND"));
                match row {
                    None => bad.push(format!("PDF Asset Events table has no DIVIDEND row dated {duk}")),
                    Some(p) => {
                        let v = runs.get(p + 4).cloned().unwrap_or_default();
                        if v != pound(&e.pdf_event) { bad.push(format!("PDF event value {v:?}, expected {:?}", pound(&e.pdf_event))); }
                    }
                }
            }
            if !bad.is_empty() {
                fs.push(Finding { prop: "C17".into(), kind: if bad.iter().any(|b| b.starts_with("PDF")) { "pdf_echo".into() } else if bad.iter().any(|b| b.starts_with("JSON")) { "json_echo".into() } else { "text_echo".into() },
                    case: ci * 45 + i, detail: bad.join("; "),
                    input: format!("{date} {kind} AAA {} @ {} {} FEES {} {}", milli(e.qty).normalize(), milli(e.price).normalize(), e.pcur, milli(e.fee).normalize(), e.fcur), data: json!({}) });
            }
        }
    }
    fs
}

fn milli(k: i64) -> Decimal { Decimal::new(k, 3) }
fn pound(s: &str) -> String { s.replace('$', "£") }
/// "-£0.00" and "£0.00" denote the same pence amount
fn unsign_zero(s: &str) -> String { s.replace("-£0.00", "£0.00") }

const COST: i64 = 5_000_000_000; // 5,000,000.000 : keeps proceeds positive for every value

/// One tax year (start year `y`) whose slots carry value k: disposal 1 results in k, disposal 2 in a
/// loss of 5.006, so the year nets a gain against a loss with sub-penny fractions.
fn year_for(v: &Fmt, y: u16) -> Option<TaxYearSummary> {
    let k = milli(v.k);
    let loss = milli(5006);
    let cost = milli(COST);
    let d1 = NaiveDate::from_ymd_opt(y as i32, 6, 1)?;
    let d2 = NaiveDate::from_ymd_opt(y as i32, 7, 2)?;
    // three legs: same day (1 share), 30-day (1 share, bought 9 June), pool (2 shares whose cost per share is
    // 1,250,000 + unit_k/1000); the legs' costs add up to `cost`, their gains to `result`
    let quarter = cost / Decimal::from(4);
    let x = milli(2 * v.unit_k);
    let disp = |date: NaiveDate, ticker: &str, result: Decimal| Disposal {
        date,
        ticker: ticker.into(),
        quantity: Decimal::from(4),
        gross_proceeds: cost + result + Decimal::new(10, 2),
        proceeds: cost + result,
        matches: vec![
            Match { rule: MatchRule::SameDay, quantity: Decimal::ONE, allowable_cost: quarter - x, gain_or_loss: Decimal::ZERO, acquisition_date: Some(date) },
            Match { rule: MatchRule::BedAndBreakfast, quantity: Decimal::ONE, allowable_cost: quarter, gain_or_loss: Decimal::ZERO, acquisition_date: date.checked_add_days(chrono::Days::new(8)) },
            Match { rule: MatchRule::Section104, quantity: Decimal::from(2), allowable_cost: quarter + quarter + x, gain_or_loss: result, acquisition_date: None },
        ],
    };
    let (g, l) = if v.k > 0 { (k, loss) } else { (Decimal::ZERO, loss - k) };
    Some(TaxYearSummary {
        period: TaxPeriod::new(y).ok()?,
        disposals: vec![disp(d1, "AAA", k), disp(d2, "BBB", -loss)],
        total_gain: g,
        total_loss: l,
        net_gain: k - loss,
        exempt_amount: Decimal::from(3000),
        dividend_income: Decimal::ZERO,
        dividend_tax_paid: Decimal::ZERO,
    })
}

fn money_tokens(text: &str) -> Vec<String> {
    // every maximal token that looks like a pound figure: optional sign, £, digits / commas / dot
    let mut out = Vec::new();
    let chars: Vec<char> = text.chars().collect();
    let mut i = 0;
    while i < chars.len() {
        if chars[i] == '£' {
            let mut s = String::new();
            if i > 0 && (chars[i - 1] == '-' || chars[i - 1] == '\u{2212}') { s.push('-'); }
            s.push('£');
            let mut j = i + 1;
            while j < chars.len() && (chars[j].is_ascii_digit() || chars[j] == ',' || chars[j] == '.') { s.push(chars[j]); j += 1; }
            out.push(s.trim_end_matches(['.', ',']).to_string());
            i = j;
        } else {
            i += 1;
        }
    }
    out
}

/// A pound figure is malformed if its integer part is empty or, when it uses thousands separators,
/// the grouping is wrong.  (Figures shown "in full", e.g. unit prices, carry no separators.)
fn well_formed(tok: &str) -> bool {
    let t = tok.trim_start_matches('-');
    let Some(body) = t.strip_prefix('£') else { return false };
    let (int, frac) = match body.split_once('.') { Some((a, b)) => (a, Some(b)), None => (body, None) };
    if int.is_empty() { return false; }
    if !int.contains(',') { return int.chars().all(|c| c.is_ascii_digit()) && frac.map(|f| f.chars().all(|c| c.is_ascii_digit())).unwrap_or(true); }
    let groups: Vec<&str> = int.split(',').collect();
    if groups[0].is_empty() || groups[0].len() > 3 || (groups[0].len() > 1 && groups[0].starts_with('0')) { return false; }
    if groups.iter().skip(1).any(|g| g.len() != 3) { return false; }
    if !groups.iter().all(|g| g.chars().all(|c| c.is_ascii_digit())) { return false; }
    frac.map(|f| !f.is_empty() && f.chars().all(|c| c.is_ascii_digit())).unwrap_or(true)
}

fn main() {
    let v: Vec<String> = std::env::args().collect();
    let (mut input, mut out, mut pdf_every) = (String::new(), String::new(), 1usize);
    let mut i = 1;
    while i < v.len() {
        match v[i].as_str() {
            "--in" => { input = v[i + 1].clone(); i += 1; }
            "--out" => { out = v[i + 1].clone(); i += 1; }
            "--pdf-every" => { pdf_every = v[i + 1].parse().unwrap_or(1); i += 1; }
            _ => {}
        }
        i += 1;
    }
    cgtv::silence_panics();
    let vals: Vec<Fmt> = cgtv::tlc::tagged_lines(&input, "FMT").unwrap_or_default().iter().map(|l| serde_json::from_str(l).unwrap_or_else(|e| { eprintln!("bad FMT line: {e}"); std::process::exit(2); })).collect();
    let lbls: Vec<Lbl> = cgtv::tlc::tagged_lines(&input, "LBL").unwrap_or_default().iter().map(|l| serde_json::from_str(l).unwrap_or_else(|e| { eprintln!("bad LBL line: {e}"); std::process::exit(2); })).collect();
    if vals.is_empty() || lbls.is_empty() { eprintln!("no FMT/LBL lines"); std::process::exit(2); }
    // batches of values, one tax year each (1900 + i), so that one PDF compilation serves a whole batch
    const BATCH: usize = 24;
    let batches: Vec<Vec<Fmt>> = vals.chunks(BATCH).map(|c| c.to_vec()).collect();
    let results = cgtv::par::par_map(&batches, cgtv::par::threads(), |bi, batch| {
        let mut cnt = Counters::default();
        let mut fs: Vec<Finding> = Vec::new();
        let years: Vec<TaxYearSummary> = batch.iter().enumerate().filter_map(|(i, v)| year_for(v, 1900 + ((bi * BATCH + i) % 200) as u16)).collect();
        let report = TaxReport {
            tax_years: years.clone(),
            // one holding per value of the batch (H00, H01, ...): 8 shares whose total cost is hold_k
            // ... and a second one (J00, J01, ...): 300 shares, a non-terminating average just below a half-penny midpoint
            holdings: batch.iter().enumerate().map(|(i, v)| Section104Holding { ticker: format!("H{i:02}"), quantity: Decimal::from(8), total_cost: milli(v.hold_k) })
                .chain(batch.iter().enumerate().map(|(i, v)| Section104Holding { ticker: format!("J{i:02}"), quantity: Decimal::from(300), total_cost: milli(v.hold2_k) })).collect(),
            transactions: vec![],
        };
        let desc = |v: &Fmt| format!("value {} (thousandths of a pound); expected pence {} i.e. {}", v.k, v.pence, pound(&v.gbp));
        // ---- plain text
        let rep2 = report.clone();
        let plain = guarded(move || cgt_formatter_plain::format(&rep2));
        // ---- JSON
        let rep3 = report.clone();
        let js = guarded(move || serde_json::to_value(&rep3).map_err(|e| e.to_string()));
        // ---- PDF text runs
        let pdf = if bi % pdf_every == 0 {
            let rep4 = report.clone();
            Some(guarded(move || cgt_formatter_pdf::verif_text_runs(&rep4).map_err(|e| e.to_string())))
        } else { None };
        let pdf_text: Option<String> = match &pdf {
            Some(Ok(Ok(runs))) => Some(unsign_zero(&runs.join("\n").replace('\u{2212}', "-"))),
            Some(other) => { fs.push(Finding { prop: "C17".into(), kind: "pdf_failed".into(), case: bi, detail: format!("PDF generation failed: {:?}", other.as_ref().map(|r| r.as_ref().map(|_| ()))), input: desc(&batch[0]), data: json!({}) }); None }
            None => None,
        };
        let plain_text = match &plain { Ok(p) => unsign_zero(p), Err(p) => { fs.push(Finding { prop: "C15".into(), kind: "panic".into(), case: bi, detail: format!("plain formatter panicked: {p}"), input: desc(&batch[0]), data: json!({}) }); String::new() } };
        let json_val = match &js { Ok(Ok(j)) => j.clone(), _ => { fs.push(Finding { prop: "C17".into(), kind: "json_failed".into(), case: bi, detail: "JSON serialisation failed".into(), input: desc(&batch[0]), data: json!({}) }); json!(null) } };
        // malformed figures anywhere in the text front-ends
        for (name, text) in [("text", Some(&plain_text)), ("PDF", pdf_text.as_ref())] {
            let Some(text) = text else { continue };
            for tok in money_tokens(text) {
                if !well_formed(&tok) {
                    fs.push(Finding { prop: "C17".into(), kind: "malformed_figure".into(), case: bi, detail: format!("{name} report shows the malformed figure {tok:?}"), input: desc(&batch[0]), data: json!({}) });
                    break;
                }
            }
        }
        for (i, v) in batch.iter().enumerate() {
            cnt.inc("values");
            if (v.k.abs() % 10) == 5 { cnt.inc("midpoints"); }
            let y = &years[i];
            let label = format!("{}", y.period);
            // ---- plain: the summary row of this year and the two disposals
            let row = plain_text.lines().find(|l| l.starts_with(&label)).unwrap_or("");
            // columns: year, count, net, gain, loss, proceeds, exemption, taxable (wide figures may touch)
            let toks = money_tokens(row);
            let mut cells: Vec<&str> = vec!["", ""];
            cells.extend(toks.iter().map(|s| s.as_str()));
            let want_net = pound(&v.net_gbp);
            let want_gain = pound(&v.gain_gbp);
            let want_loss = pound(&v.loss_gbp);
            let mut bad = Vec::new();
            if cells.get(2).copied() != Some(want_net.as_str()) { bad.push(format!("text summary net gain {:?}, expected {want_net}", cells.get(2))); }
            if cells.get(3).copied() != Some(want_gain.as_str()) { bad.push(format!("text summary total gain {:?}, expected {want_gain}", cells.get(3))); }
            if cells.get(4).copied() != Some(want_loss.as_str()) { bad.push(format!("text summary total loss {:?}, expected {want_loss}", cells.get(4))); }
            for (o, name, want) in [(5usize, "proceeds", pound(&v.proceeds_gbp)), (6, "exemption", pound(&v.exempt_gbp)), (7, "taxable gain", pound(&v.taxable_gbp))] {
                if cells.get(o).copied() != Some(want.as_str()) { bad.push(format!("text summary {name} {:?}, expected {want}", cells.get(o))); }
            }
            // the first disposal's details: gross proceeds, net proceeds line, cost
            let sect: Vec<&str> = plain_text.lines().skip_while(|l| *l != format!("## {label}")).skip(1).take_while(|l| !l.starts_with("## ") && !l.starts_with("# ")).collect();
            let first: Vec<&str> = sect.iter().skip_while(|l| !l.starts_with("1) ")).take_while(|l| !l.starts_with("2) ")).copied().collect();
            let gp = first.iter().find(|l| l.trim_start().starts_with("Gross Proceeds:")).copied().unwrap_or("");
            if !gp.ends_with(&format!("= {}", pound(&v.d1_gross_gbp))) { bad.push(format!("text gross proceeds line {gp:?}, expected ... = {}", pound(&v.d1_gross_gbp))); }
            let np = first.iter().find(|l| l.trim_start().starts_with("Net Proceeds:")).map(|l| l.trim()).unwrap_or("");
            let want_np = vec![pound(&v.d1_gross_gbp), pound(&v.fee_gbp), pound(&v.d1_net_gbp)];
            if money_tokens(np) != want_np { bad.push(format!("text net proceeds line {np:?}, expected the figures {want_np:?}")); }
            // the legs: rule, quantity, acquisition date, and the pool leg's cost per share (by value: the text report drops trailing zeros)
            let yy = y.period.start_year();
            for want in [format!("Same Day: 1 shares"), format!("B&B: 1 shares from 09/06/{yy}")] {
                if !first.iter().any(|l| l.trim() == want) { bad.push(format!("text report lacks the leg line {want:?}")); }
            }
            let pl = first.iter().find(|l| l.trim_start().starts_with("Section 104: 2 shares @ ")).map(|l| l.trim()).unwrap_or("");
            let val = |t: &str| Decimal::from_str(&t.replace(['£', ','], "")).ok();
            if money_tokens(pl).first().and_then(|t| val(t)).is_none() || money_tokens(pl).first().and_then(|t| val(t)) != val(&pound(&v.s104_unit_gbp)) {
                bad.push(format!("text pool leg line {pl:?}, expected a cost per share of {}", pound(&v.s104_unit_gbp)));
            }
            let cl = first.iter().find(|l| l.trim_start().starts_with("Cost:")).map(|l| l.trim()).unwrap_or("");
            if cl != format!("Cost: {}", pound(&v.cost_gbp)) { bad.push(format!("text cost line {cl:?}, expected Cost: {}", pound(&v.cost_gbp))); }
            {
                // the text report writes the average rounded to pence without trailing zeros ("£1" for 1.00): compare the value
                let line = plain_text.lines().find(|l| l.starts_with(&format!("H{i:02}: 8 units at "))).unwrap_or("");
                let val = |t: &str| Decimal::from_str(&t.replace(['£', ','], "")).ok();
                let got = money_tokens(line).first().and_then(|t| val(t));
                if got.is_none() || got != val(&pound(&v.hold_avg_gbp)) { bad.push(format!("text holdings line {line:?}, expected an average cost of {}", pound(&v.hold_avg_gbp))); }
                let line = plain_text.lines().find(|l| l.starts_with(&format!("J{i:02}: 300 units at "))).unwrap_or("");
                let got = money_tokens(line).first().and_then(|t| val(t));
                if got.is_none() || got != val(&pound(&v.hold2_avg_gbp)) { bad.push(format!("text holdings line {line:?}, expected an average cost of {} ({} thousandths over 300 shares)", pound(&v.hold2_avg_gbp), v.hold2_k)); }
            }
            let want_result = format!("Result: {}", pound(&v.gbp));
            let head = format!("{} AAA on 01/06/{} - {} {}", 4, y.period.start_year(), if v.k >= 0 { "GAIN" } else { "LOSS" }, pound(&v.gbp_abs));
            if !plain_text.contains(&want_result) { bad.push(format!("text report lacks {want_result:?}")); }
            if !plain_text.contains(&head) { bad.push(format!("text report lacks the disposal heading {head:?}")); }
            // ---- JSON: numeric equality with the pence rounding (or the full value)
            let jy = &json_val["tax_years"][i];
            let num = |x: &serde_json::Value| x.as_str().and_then(|s| Decimal::from_str(s).ok());
            let as_pence = |p: i64| Decimal::new(p, 2);
            let check = |name: &str, got: Option<Decimal>, pence: i64, full: Decimal, bad: &mut Vec<String>| {
                match got { Some(g) if g == as_pence(pence) || g == full => {}, other => bad.push(format!("JSON {name} = {:?}, expected {} (or the full value {full})", other, as_pence(pence))) }
            };
            check("net_gain", num(&jy["net_gain"]), v.net_pence, milli(v.net_k), &mut bad);
            check("disposal gain_or_loss", num(&jy["disposals"][0]["matches"][2]["gain_or_loss"]), v.pence, milli(v.k), &mut bad);
            for (li, q) in [(0usize, "1"), (1, "1"), (2, "2")] {
                if jy["disposals"][0]["matches"][li]["quantity"].as_str().and_then(|s| Decimal::from_str(s).ok()) != Decimal::from_str(q).ok() { bad.push(format!("JSON leg {li} quantity {}", jy["disposals"][0]["matches"][li]["quantity"])); }
            }
            if jy["period"].as_str() != Some(label.as_str()) { bad.push(format!("JSON period {:?} vs text {label}", jy["period"])); }
            // ---- PDF
            if let Some(pt) = &pdf_text {
                cnt.inc("pdf_values");
                // a wide negative figure may be laid out as two runs ("-" and the rest): glue them
                let mut glued: Vec<String> = Vec::new();
                let mut carry = String::new();
                for l in pt.lines().map(|l| l.trim()) {
                    if l == "-" { carry = "-".into(); continue; }
                    glued.push(format!("{carry}{l}"));
                    carry.clear();
                }
                let glued: Vec<String> = glued.iter().map(|s| unsign_zero(s)).collect();
                let runs: Vec<&str> = glued.iter().map(|s| s.as_str()).collect();
                // summary table: the label, the count, then six money cells
                match runs.iter().position(|r| *r == label) {
                    None => bad.push(format!("PDF lacks the tax-year label {label}")),
                    Some(p) => {
                        let cell = |o: usize| runs.get(p + o).copied().unwrap_or("");
                        if cell(2) != want_net { bad.push(format!("PDF summary net gain {:?}, expected {want_net}", cell(2))); }
                        if cell(3) != want_gain { bad.push(format!("PDF summary total gain {:?}, expected {want_gain}", cell(3))); }
                        if cell(4) != want_loss { bad.push(format!("PDF summary total loss {:?}, expected {want_loss}", cell(4))); }
                        for (o, name, want) in [(5usize, "proceeds", pound(&v.proceeds_gbp)), (6, "exemption", pound(&v.exempt_gbp)), (7, "taxable gain", pound(&v.taxable_gbp))] {
                            if cell(o) != want { bad.push(format!("PDF summary {name} {:?}, expected {want}", cell(o))); }
                        }
                    }
                }
                // details: first disposal under "Tax Year <label>"
                match runs.iter().position(|r| *r == format!("Tax Year {label}")) {
                    None => bad.push(format!("PDF lacks the details section of {label}")),
                    Some(p) => {
                        let sect: Vec<&str> = runs[p + 1..].iter().take_while(|r| !r.starts_with("Tax Year ")).copied().collect();
                        let head = format!("{} {}", if v.k >= 0 { "GAIN" } else { "LOSS" }, pound(&v.gbp_abs));
                        if sect.iter().find(|r| r.starts_with("GAIN ") || r.starts_with("LOSS ")).copied() != Some(head.as_str()) {
                            bad.push(format!("PDF disposal heading {:?}, expected {head:?}", sect.iter().find(|r| r.starts_with("GAIN ") || r.starts_with("LOSS "))));
                        }
                        let yy = y.period.start_year();
                        let first_disp: Vec<&str> = sect.iter().take_while(|r| !r.starts_with("2. ")).copied().collect();
                        for want in ["Same Day: 1 shares".to_string(), format!("B&B: 1 shares from 09/06/{yy}"), format!("Section 104: 2 shares @ {}", pound(&v.s104_unit_gbp))] {
                            // (the list bullet "-" in front of a leg line is glued to it like a minus sign by the run joiner above)
                            if !first_disp.iter().any(|r| r.trim_start_matches('-') == want) {
                                bad.push(format!("PDF lacks the leg line {want:?} (has {:?})", first_disp.iter().map(|r| r.trim_start_matches('-')).filter(|r| r.starts_with("Same Day") || r.starts_with("B&B") || r.starts_with("Section 104")).collect::<Vec<_>>()));
                            }
                        }
                        let after = |lab: &str| sect.iter().position(|r| *r == lab).and_then(|i| sect.get(i + 1)).copied().unwrap_or("");
                        if !after("Gross Proceeds:").ends_with(&format!("= {}", pound(&v.d1_gross_gbp))) { bad.push(format!("PDF gross proceeds {:?}, expected ... = {}", after("Gross Proceeds:"), pound(&v.d1_gross_gbp))); }
                        let want_np = vec![pound(&v.d1_gross_gbp), pound(&v.fee_gbp), pound(&v.d1_net_gbp)];
                        if money_tokens(after("Net Proceeds:")) != want_np { bad.push(format!("PDF net proceeds {:?}, expected the figures {want_np:?}", after("Net Proceeds:"))); }
                        if after("Cost:") != pound(&v.cost_gbp) { bad.push(format!("PDF cost {:?}, expected {}", after("Cost:"), pound(&v.cost_gbp))); }
                        let res = sect.iter().position(|r| *r == "Result:").and_then(|i| sect.get(i + 1)).copied();
                        if res != Some(pound(&v.gbp).as_str()) { bad.push(format!("PDF result {:?}, expected {}", res, pound(&v.gbp))); }
                    }
                }
            }
            if let Some(pt) = &pdf_text {
                let runs: Vec<&str> = pt.lines().map(|l| l.trim()).collect();
                let tick = format!("H{i:02}");
                let h = runs.iter().position(|r| *r == "Holdings").map(|p| runs[p..].to_vec()).unwrap_or_default();
                let row = h.iter().position(|r| *r == tick).map(|p| h[p..].iter().take(3).copied().collect::<Vec<_>>()).unwrap_or_default();
                let want = [tick.as_str(), "8", &pound(&v.hold_avg_gbp)];
                if row != want { bad.push(format!("PDF holdings row {:?}, expected {:?}", row, want)); }
                let tick = format!("J{i:02}");
                let row = h.iter().position(|r| *r == tick).map(|p| h[p..].iter().take(3).copied().collect::<Vec<_>>()).unwrap_or_default();
                let want = [tick.as_str(), "300", &pound(&v.hold2_avg_gbp)];
                if row != want { bad.push(format!("PDF holdings row {:?}, expected {:?}", row, want)); }
            }
            if !bad.is_empty() {
                fs.push(Finding { prop: "C17".into(), kind: if bad.iter().any(|b| b.starts_with("PDF")) { "pdf_figure".into() } else if bad.iter().any(|b| b.starts_with("JSON")) { "json_figure".into() } else { "text_figure".into() },
                    case: bi * BATCH + i, detail: bad.join("; "), input: desc(v), data: json!({"k": v.k}) });
            }
        }
        cnt.add("executions", if pdf_text.is_some() { 3 } else { 2 });
        (fs, cnt)
    });
    let mut cnt = Counters::default();
    let mut findings: Vec<Finding> = Vec::new();
    for (fs, c) in results { cnt.merge(&c); findings.extend(fs); }
    // ---- echoes of transactions and asset events
    let echos: Vec<Echo> = cgtv::tlc::tagged_lines(&input, "ECHO").unwrap_or_default().iter().map(|l| serde_json::from_str(l).unwrap_or_else(|e| { eprintln!("bad ECHO line: {e}"); std::process::exit(2); })).collect();
    if echos.is_empty() { eprintln!("no ECHO lines"); std::process::exit(2); }
    findings.extend(echo_checks(&echos, &mut cnt));
    // ---- labels and dates
    for l in &lbls {
        cnt.inc("labels");
        let got = cgt_format::format_tax_year(l.year);
        let tp = TaxPeriod::new(l.year).map(|p| p.to_string()).unwrap_or_default();
        let ser = TaxPeriod::new(l.year).ok().and_then(|p| serde_json::to_value(p).ok()).and_then(|v| v.as_str().map(String::from)).unwrap_or_default();
        let date = NaiveDate::from_ymd_opt(l.year as i32, 4, 5).map(cgt_format::format_date).unwrap_or_default();
        if got != l.label || tp != l.label || ser != l.label || date != l.date {
            findings.push(Finding { prop: "C17".into(), kind: "label".into(), case: l.year as usize, detail: format!("tax-year label {got:?}/{tp:?}/{ser:?} expected {:?}; date {date:?} expected {:?}", l.label, l.date), input: l.year.to_string(), data: json!({}) });
        }
    }
    let mut w = std::io::BufWriter::new(std::fs::File::create(&out).unwrap_or_else(|e| { eprintln!("cannot write {out}: {e}"); std::process::exit(2); }));
    for f in &findings { let _ = writeln!(w, "{}", serde_json::to_string(f).unwrap_or_default()); }
    let sample: Vec<String> = vals.iter().step_by((vals.len() / 3).max(1)).take(3).map(|v| format!("{} -> {}", v.k, pound(&v.gbp))).collect();
    println!("{}", json!({"records": vals.len() + lbls.len(), "findings": findings.len(), "counters": cnt.map, "samples": sample}));
}
