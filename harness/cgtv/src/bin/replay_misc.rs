//! Replays MC_Misc lines: VAL (validator rule) and HOSTILE (totality under magnitude classes) — C15.
//!
//! usage: replay_misc --in TLC_LOG --out FINDINGS.ndjson

use cgt_core::calculator::calculate;
use cgt_core::parser::parse_file;
use cgt_core::{Currency, CurrencyAmount, Operation, Transaction, validate};
use cgtv::ledger::to_dsl;
use cgtv::{Counters, Finding, guarded};
use chrono::NaiveDate;
use rust_decimal::Decimal;
use serde::Deserialize;
use serde_json::json;
use std::io::Write;
use std::str::FromStr;

#[derive(Debug, Clone, Deserialize)]
struct ValTx { kind: String, q: String, m: String, x: String, r: String }
#[derive(Debug, Clone, Deserialize)]
struct ValRec { txs: Vec<ValTx>, errors: Vec<usize> }
#[derive(Debug, Clone, Deserialize)]
struct Second { kind: String, a: String, b: String }
#[derive(Debug, Clone, Deserialize)]
struct Hostile { q: String, p: String, second: Second, date: String, order: String }

fn sign(s: &str) -> Decimal {
    match s { "neg" => Decimal::new(-25, 1), "zero" => Decimal::ZERO, _ => Decimal::new(35, 1) }
}
fn gbp(d: Decimal) -> CurrencyAmount { CurrencyAmount::new(d, Currency::GBP) }

fn val_tx(t: &ValTx, day: u32) -> Transaction {
    let date = NaiveDate::from_ymd_opt(2024, 5, day).unwrap_or_default();
    let (q, m, x, r) = (sign(&t.q), gbp(sign(&t.m)), gbp(sign(&t.x)), sign(&t.r));
    let operation = match t.kind.as_str() {
        "BUY" => Operation::Buy { amount: q, price: m, fees: x },
        "SELL" => Operation::Sell { amount: q, price: m, fees: x },
        "DIVIDEND" => Operation::Dividend { total_value: m, tax_paid: x },
        "ACCUMULATION" => Operation::Accumulation { amount: q, total_value: m, tax_paid: x },
        "CAPRETURN" => Operation::CapReturn { amount: q, total_value: m, fees: x },
        "SPLIT" => Operation::Split { ratio: r },
        _ => Operation::Unsplit { ratio: r },
    };
    Transaction { date, ticker: "AAA".into(), operation }
}

fn hostile_txs(h: &Hostile) -> Option<Vec<Transaction>> {
    let d = |s: &str| Decimal::from_str(s).ok();
    let date = match h.date.as_str() { "MAX" => NaiveDate::MAX, "MIN" => NaiveDate::MIN, s => NaiveDate::parse_from_str(s, "%Y-%m-%d").ok()? };
    let d0 = NaiveDate::from_ymd_opt(2024, 1, 15)?;
    let buy = Transaction { date: if date < d0 { date } else { d0 }, ticker: "AAA".into(), operation: Operation::Buy { amount: d(&h.q)?, price: gbp(d(&h.p)?), fees: gbp(Decimal::ONE) } };
    let (a, b) = (d(&h.second.a)?, d(&h.second.b)?);
    let op = match h.second.kind.as_str() {
        "none" => None,
        "SELL" => Some(Operation::Sell { amount: a, price: gbp(b), fees: gbp(Decimal::ONE) }),
        "CAPRETURN" => Some(Operation::CapReturn { amount: a, total_value: gbp(b), fees: gbp(Decimal::ZERO) }),
        "ACCUMULATION" => Some(Operation::Accumulation { amount: a, total_value: gbp(b), tax_paid: gbp(Decimal::ZERO) }),
        "SPLIT" => Some(Operation::Split { ratio: a }),
        "UNSPLIT" => Some(Operation::Unsplit { ratio: a }),
        "BUYSAME" | "SELLPAIR" | "SPLITMID" | "UNSPLITMID" => None,
        _ => Some(Operation::Dividend { total_value: gbp(a), tax_paid: gbp(Decimal::ZERO) }),
    };
    let mut v = vec![buy.clone()];
    if h.second.kind == "BUYSAME" {
        v.push(Transaction { date: buy.date, ticker: "ZZZ".into(), operation: Operation::Buy { amount: Decimal::ONE, price: gbp(Decimal::ONE), fees: gbp(Decimal::ZERO) } });
        v.push(Transaction { date: buy.date, ticker: "AAA".into(), operation: Operation::Buy { amount: a, price: gbp(b), fees: gbp(Decimal::ZERO) } });
    } else if h.second.kind == "SELLPAIR" {
        v.push(Transaction { date, ticker: "AAA".into(), operation: Operation::Sell { amount: a, price: gbp(Decimal::ONE), fees: gbp(Decimal::ZERO) } });
        v.push(Transaction { date, ticker: "AAA".into(), operation: Operation::Sell { amount: b, price: gbp(Decimal::from(2)), fees: gbp(Decimal::ZERO) } });
    } else if h.second.kind == "SPLITMID" || h.second.kind == "UNSPLITMID" {
        let d1 = date.succ_opt().unwrap_or(date);
        let d2 = d1.succ_opt().unwrap_or(d1);
        v.push(Transaction { date, ticker: "AAA".into(), operation: Operation::Sell { amount: b, price: gbp(Decimal::from(2)), fees: gbp(Decimal::ZERO) } });
        v.push(Transaction { date: d1, ticker: "AAA".into(), operation: if h.second.kind == "SPLITMID" { Operation::Split { ratio: a } } else { Operation::Unsplit { ratio: a } } });
        v.push(Transaction { date: d2, ticker: "AAA".into(), operation: Operation::Buy { amount: Decimal::ONE, price: gbp(Decimal::from(3)), fees: gbp(Decimal::ZERO) } });
    } else
    if let Some(op) = op { v.push(Transaction { date, ticker: "AAA".into(), operation: op }); }
    if h.order == "second_first" { v.reverse(); }
    Some(v)
}

fn main() {
    let v: Vec<String> = std::env::args().collect();
    let (mut input, mut out) = (String::new(), String::new());
    let mut i = 1;
    while i < v.len() {
        match v[i].as_str() {
            "--in" => { input = v[i + 1].clone(); i += 1; }
            "--out" => { out = v[i + 1].clone(); i += 1; }
            _ => {}
        }
        i += 1;
    }
    cgtv::silence_panics();
    let vals: Vec<ValRec> = cgtv::tlc::tagged_lines(&input, "VAL").unwrap_or_default().iter().map(|l| serde_json::from_str(l).unwrap_or_else(|e| { eprintln!("bad VAL line: {e}"); std::process::exit(2); })).collect();
    let hos: Vec<Hostile> = cgtv::tlc::tagged_lines(&input, "HOSTILE").unwrap_or_default().iter().map(|l| serde_json::from_str(l).unwrap_or_else(|e| { eprintln!("bad HOSTILE line: {e}"); std::process::exit(2); })).collect();
    if vals.is_empty() || hos.is_empty() { eprintln!("no VAL/HOSTILE lines in {input}"); std::process::exit(2); }
    let mut cnt = Counters::default();
    let mut findings: Vec<Finding> = Vec::new();
    for (case_no, r) in vals.iter().enumerate() {
        let txs: Vec<Transaction> = r.txs.iter().enumerate().map(|(i, t)| val_tx(t, 1 + i as u32)).collect();
        cnt.inc("validator_cases");
        cnt.inc("executions");
        if !r.errors.is_empty() { cnt.inc("invalid_classes"); }
        match guarded(|| validate(&txs)) {
            Err(p) => findings.push(Finding { prop: "C15".into(), kind: "panic".into(), case: case_no, detail: format!("validate panicked: {p}"), input: format!("{txs:?}"), data: json!({}) }),
            Ok(res) => {
                let mut got: Vec<usize> = res.errors.iter().filter_map(|e| e.line).collect();
                got.sort();
                got.dedup();
                if res.is_valid() != r.errors.is_empty() || got != r.errors {
                    findings.push(Finding { prop: "C15".into(), kind: "validator_rule".into(), case: case_no,
                        detail: format!("validator reports errors at positions {:?}, the rule says {:?} ({:?})", got, r.errors, res.errors.iter().map(|e| e.message.clone()).collect::<Vec<_>>()),
                        input: format!("{:?}", r.txs), data: json!({}) });
                }
            }
        }
    }
    let cfg = cgtv::ledger::full_config();
    let results = cgtv::par::par_map(&hos, cgtv::par::threads(), |case_no, h| {
        let mut fs: Vec<Finding> = Vec::new();
        let Some(txs) = hostile_txs(h) else { return (fs, 0u64, 0u64) };
        let text = to_dsl(&txs);
        let mut report = 0u64;
        // library: parse the rendering, validate, calculate — each must terminate with a value
        let t2 = text.clone();
        match guarded(move || parse_file(&t2).map_err(|e| e.to_string())) {
            Err(p) => fs.push(Finding { prop: "C15".into(), kind: "panic".into(), case: case_no, detail: format!("parse_file panicked: {p}"), input: text.clone(), data: json!({"where": "parse"}) }),
            Ok(_) => {}
        }
        let t3 = txs.clone();
        if let Err(p) = guarded(move || validate(&t3)) {
            fs.push(Finding { prop: "C15".into(), kind: "panic".into(), case: case_no, detail: format!("validate panicked: {p}"), input: text.clone(), data: json!({"where": "validate"}) });
        }
        let t4 = txs.clone();
        let c = cfg.clone();
        match guarded(move || calculate(&t4, None, None, &c).map(|_| ()).map_err(|e| e.to_string())) {
            Err(p) => fs.push(Finding { prop: "C15".into(), kind: "panic".into(), case: case_no, detail: format!("calculate panicked: {p}"), input: text.clone(), data: json!({"where": "calculate", "magnitudes": [h.q, h.p, h.second.a, h.second.b]}) }),
            Ok(Ok(())) => report = 1,
            Ok(Err(_)) => {}
        }
        (fs, 3, report)
    });
    for (fs, n, rep) in results {
        findings.extend(fs);
        cnt.add("executions", n);
        cnt.inc("hostile_cases");
        cnt.add("hostile_reports", rep);
    }
    let mut w = std::io::BufWriter::new(std::fs::File::create(&out).unwrap_or_else(|e| { eprintln!("cannot write {out}: {e}"); std::process::exit(2); }));
    for f in &findings { let _ = writeln!(w, "{}", serde_json::to_string(f).unwrap_or_default()); }
    let sample: Vec<String> = hos.iter().step_by((hos.len() / 2).max(1)).take(2).filter_map(|h| hostile_txs(h).map(|t| to_dsl(&t))).collect();
    println!("{}", json!({"records": vals.len() + hos.len(), "findings": findings.len(), "counters": cnt.map, "samples": sample}));
}
