//! Replays MC_Cgt behaviours (REPLAY lines) against cgt_core::calculator::calculate
//! and reports every deviation, attributed to the property it violates.
//!
//! usage: replay_cgt --in TLC_LOG --out FINDINGS.ndjson [--bases K] [--variants none|orders|fills|all]
//!                   [--obs OBS.ndjson]   (write observations of event ledgers for the TLC observation pass)

use cgt_core::calculator::calculate;
use cgt_core::{MatchRule, TaxReport, Transaction};
use cgtv::ledger::*;
use cgtv::rat::{Rat, snap, tol, tol_proceeds};
use cgtv::summary::{compare, rule_name, summarize};
use cgtv::{Counters, Finding, guarded};
use chrono::NaiveDate;
use rust_decimal::Decimal;
use serde_json::json;
use std::collections::{BTreeMap, HashMap};
use std::io::Write;

struct Args {
    input: String,
    out: String,
    obs: Option<String>,
    bases: usize,
    variants: String,
    cli: Option<String>,
    cli_every: usize,
    micro: bool,
}

fn parse_args() -> Args {
    let mut a = Args { input: String::new(), out: String::new(), obs: None, bases: 2, variants: "none".into(), cli: None, cli_every: 50, micro: false };
    let v: Vec<String> = std::env::args().collect();
    let mut i = 1;
    while i < v.len() {
        match v[i].as_str() {
            "--in" => { a.input = v[i + 1].clone(); i += 1; }
            "--out" => { a.out = v[i + 1].clone(); i += 1; }
            "--obs" => { a.obs = Some(v[i + 1].clone()); i += 1; }
            "--bases" => { a.bases = v[i + 1].parse().unwrap_or(2); i += 1; }
            "--variants" => { a.variants = v[i + 1].clone(); i += 1; }
            "--cli" => { a.cli = Some(v[i + 1].clone()); i += 1; }
            "--micro" => { a.micro = true; }
            "--cli-every" => { a.cli_every = v[i + 1].parse().unwrap_or(50).max(1); i += 1; }
            _ => {}
        }
        i += 1;
    }
    a
}

#[derive(Default, Clone)]
struct Agg {
    q: Decimal,
    cost: Decimal,
    gain: Decimal,
}

/// All admissible outcomes of the specification for one input (one per split-timing reading
/// and per admissible apportionment of cost events).
struct Case<'a> {
    recs: Vec<&'a Rec>,
}

struct Ctx<'a> {
    case_no: usize,
    rec: &'a Rec,
    base: NaiveDate,
    txs: &'a [Transaction],
    findings: Vec<Finding>,
}

impl<'a> Ctx<'a> {
    fn push(&mut self, prop: &str, kind: &str, detail: String, data: serde_json::Value) {
        self.findings.push(Finding {
            prop: prop.into(),
            kind: kind.into(),
            case: self.case_no,
            detail,
            input: to_dsl(self.txs),
            data,
        });
    }
}

type Res = Result<Result<TaxReport, String>, String>;

/// Compare one implementation result with one specification outcome.
fn judge(case_no: usize, rec: &Rec, base: NaiveDate, txs: &[Transaction], res: &Res, cnt: &mut Counters) -> Vec<Finding> {
    let mut cx = Ctx { case_no, rec, base, txs, findings: Vec::new() };
    match res {
        Err(p) => {
            cx.push("C15", "panic", format!("calculate panicked: {p}"), json!({}));
        }
        Ok(Err(msg)) => {
            let s122 = msg.contains("S122");
            if rec.status == "refused" {
                if !s122 {
                    cx.push("C11", "refusal_not_s122", format!("unabsorbable capital return refused without citing s122: {msg}"), json!({"message": msg}));
                }
                cnt.inc("unabsorbable_refused");
            } else if s122 && rec.has_capreturn() && !rec.exact {
                // the statement is one-directional: a return the pool could absorb may still be refused
                cnt.inc("absorbable_return_refused_allowed");
            } else if rec.status == "ok" {
                cx.push("C05", "covered_refused", format!("covered ledger refused: {msg}"), json!({"message": msg}));
            } else {
                // must name an uncovered security and the date of the first uncovered day
                let d = rec.err_day().unwrap_or(1);
                let date = date_of(rec, base, d).format("%Y-%m-%d").to_string();
                let names_sec = rec.uncovered.iter().any(|s| msg.contains(s.as_str()));
                if !(names_sec && msg.contains(&date)) {
                    cx.push(
                        "C05",
                        "wrong_error",
                        format!("error does not name {:?} on {date}: {msg}", rec.uncovered),
                        json!({"message": msg, "expected_date": date, "expected_secs": rec.uncovered}),
                    );
                }
                cnt.inc("uncovered_refused");
            }
        }
        Ok(Ok(report)) => {
            if rec.status == "refused" {
                cx.push(
                    "C11",
                    "unabsorbable_accepted",
                    "a capital return larger than everything spent on the security was accepted".to_string(),
                    json!({}),
                );
            } else if rec.status != "ok" {
                let d = rec.err_day().unwrap_or(1);
                let date = date_of(rec, base, d).format("%Y-%m-%d").to_string();
                cx.push(
                    "C05",
                    "uncovered_accepted",
                    format!("sale of {:?} on {date} is not covered by shares held, yet a report was produced", rec.uncovered),
                    json!({"expected_date": date, "expected_secs": rec.uncovered}),
                );
            } else {
                judge_report(&mut cx, report, cnt);
            }
        }
    }
    cx.findings
}

fn judge_report(cx: &mut Ctx, report: &TaxReport, cnt: &mut Counters) {
    let rec = cx.rec;
    let base = cx.base;
    // with the implementation-shaped model the apportionment is determined, so costs are comparable
    let events = rec.has_events() && !rec.exact;
    // ---- expected disposals
    let mut exp: BTreeMap<(String, usize), Vec<&Leg>> = BTreeMap::new();
    for l in &rec.legs {
        exp.entry((l.sec().to_string(), l.d())).or_default().push(l);
    }
    // ---- observed disposals
    let mut obs: HashMap<(String, NaiveDate), &cgt_core::Disposal> = HashMap::new();
    let mut n_obs = 0usize;
    for y in &report.tax_years {
        for d in &y.disposals {
            if d.ticker == SEP_TICKER { continue; }
            n_obs += 1;
            if obs.insert((d.ticker.clone(), d.date), d).is_some() {
                cx.push("C04", "duplicate_disposal", format!("two disposals for {} on {}", d.ticker, d.date), json!({}));
            }
        }
    }
    if n_obs != exp.len() {
        cx.push(
            "C01",
            "disposal_count",
            format!("{} disposals reported, {} expected", n_obs, exp.len()),
            json!({"observed": n_obs, "expected": exp.len()}),
        );
    }
    let date_idx: HashMap<NaiveDate, usize> = (1..=rec.n()).map(|d| (date_of(rec, base, d), d)).collect();
    // per security, per acquisition day: shares identified with it (day-a units), from the observed legs
    let mut used: HashMap<(usize, usize), Decimal> = HashMap::new();
    let mut obs_cost: HashMap<usize, Decimal> = HashMap::new();
    let mut multi_rule = false;
    for ((sec, d), legs) in &exp {
        let si = match rec.sec_index(sec) { Some(i) => i, None => continue };
        let date = date_of(rec, base, *d);
        let cell = &rec.ledger[si][*d - 1];
        let Some(disp) = obs.get(&(sec.clone(), date)) else {
            cx.push("C01", "missing_disposal", format!("no disposal reported for {sec} on {date}"), json!({}));
            continue;
        };
        // ---- C02 (i): legs add up to the quantity sold
        let sumq: Decimal = disp.matches.iter().map(|m| m.quantity).sum();
        if !cell.sq().close_to(sumq, tol()) || !cell.sq().close_to(disp.quantity, tol()) {
            cx.push(
                "C02",
                "legs_vs_sold",
                format!("{sec} {date}: legs sum to {sumq}, disposal quantity {}, sold {}", disp.quantity, cell.sq().show()),
                json!({"legs_sum": sumq.to_string(), "sold": cell.sq().show()}),
            );
        }
        // ---- aggregate observed legs by (rule, acquisition day)
        let mut o: BTreeMap<(String, usize), Agg> = BTreeMap::new();
        for m in &disp.matches {
            let a = match (&m.rule, m.acquisition_date) {
                (MatchRule::Section104, _) => 0,
                (_, Some(ad)) => *date_idx.get(&ad).unwrap_or(&usize::MAX),
                (_, None) => usize::MAX,
            };
            let e = o.entry((rule_name(&m.rule).to_string(), a)).or_default();
            e.q += m.quantity;
            e.cost += m.allowable_cost;
            e.gain += m.gain_or_loss;
            *obs_cost.entry(si).or_default() += m.allowable_cost;
            if a != 0 && a != usize::MAX && a >= *d {
                let r = rec.ratio(si, *d, a);
                *used.entry((si, a)).or_default() += m.quantity * r.to_decimal();
            }
            if m.allowable_cost < -tol() {
                cx.push("C11", "negative_leg_cost", format!("{sec} {date}: leg with allowable cost {}", m.allowable_cost), json!({}));
            }
        }
        if legs.len() >= 2 { multi_rule = true; }
        // ---- C04 on the implementation's own figures: legs' gains = net proceeds - legs' cost
        let sum_gain: Decimal = disp.matches.iter().map(|m| m.gain_or_loss).sum();
        let sum_cost: Decimal = disp.matches.iter().map(|m| m.allowable_cost).sum();
        if (sum_gain - (disp.proceeds - sum_cost)).abs() > tol_proceeds() {
            cx.push("C04", "gain_identity", format!("{sec} {date}: legs' gains {sum_gain} != net proceeds {} - cost {sum_cost}", disp.proceeds), json!({}));
        }
        // ---- C01: rule, quantity, acquisition date (and cost/proceeds/gain) of every leg
        let mut bad = Vec::new();
        let mut ekeys: BTreeMap<(String, usize), &Leg> = BTreeMap::new();
        for l in legs { ekeys.insert((l.rule().to_string(), l.a()), l); }
        for (k, l) in &ekeys {
            match o.get(k) {
                None => bad.push(format!("missing leg {} acq-day#{} qty {}", k.0, k.1, l.q().show())),
                Some(a) => {
                    if !l.q().close_to(a.q, tol()) {
                        bad.push(format!("leg {} acq-day#{}: qty {} expected {}", k.0, k.1, a.q, l.q().show()));
                    } else if !events {
                        if !l.cost().close_to(a.cost, tol()) {
                            bad.push(format!("leg {} acq-day#{}: cost {} expected {}", k.0, k.1, a.cost, l.cost().show()));
                        }
                        if !l.gain().close_to(a.gain, tol_proceeds()) {
                            bad.push(format!("leg {} acq-day#{}: gain {} expected {}", k.0, k.1, a.gain, l.gain().show()));
                        }
                    }
                }
            }
        }
        for (k, a) in &o {
            // a leg of less than the tolerance (rounding dust after a non-terminating split ratio) is no leg
            if !ekeys.contains_key(k) && a.q.abs() > tol() {
                bad.push(format!("unexpected leg {} acq-day#{} qty {}", k.0, k.1, a.q));
            }
        }
        let gross = legs.iter().fold(Rat::ZERO, |s, l| s.add(l.gross()));
        let net = legs.iter().fold(Rat::ZERO, |s, l| s.add(l.net()));
        if !gross.close_to(disp.gross_proceeds, tol_proceeds()) {
            bad.push(format!("gross proceeds {} expected {}", disp.gross_proceeds, gross.show()));
        }
        if !net.close_to(disp.proceeds, tol_proceeds()) {
            bad.push(format!("net proceeds {} expected {}", disp.proceeds, net.show()));
        }
        if !bad.is_empty() {
            let exp_legs: Vec<String> = legs.iter().map(|l| format!("{}#{} q={} cost={}", l.rule(), l.a(), l.q().show(), l.cost().show())).collect();
            let obs_legs: Vec<String> = disp.matches.iter().map(|m| format!("{}@{:?} q={} cost={}", rule_name(&m.rule), m.acquisition_date, m.quantity, m.allowable_cost)).collect();
            let structural = bad.iter().any(|b| b.contains("qty") || b.contains("missing") || b.contains("unexpected"));
            cx.push(
                "C01",
                // only the split of the disposal's gain over its legs differs (each leg's rule, quantity, acquisition and
                // cost are right, and so are the disposal's proceeds): the line-adjacency matter D14, not identification
                if structural { "leg_identification" } else if bad.iter().all(|b| b.contains(": gain ")) { "leg_gain_apportionment" } else { "leg_value" },
                format!("{sec} {date}: {}", bad.join("; ")),
                json!({"expected": exp_legs, "observed": obs_legs}),
            );
        }
    }
    // one disposal per security and day: a second record for the same (security, date) is a split-up disposal
    {
        let mut seen = std::collections::HashSet::new();
        for y in &report.tax_years {
            for d in &y.disposals {
                if !seen.insert((d.ticker.clone(), d.date)) {
                    cx.push("C01", "duplicate_disposal", format!("{} on {} is reported as more than one disposal", d.ticker, d.date), json!({}));
                }
            }
        }
    }
    if multi_rule { cnt.inc("multi_leg_disposals"); }
    // ---- C02 (ii): shares matched against one day's acquisition never exceed it
    for ((si, a), q) in &used {
        let bq = rec.ledger[*si][*a - 1].bq();
        if *q > bq.to_decimal() + tol() {
            cx.push(
                "C02",
                "acquisition_overmatched",
                format!("{} acquisition day#{a}: {} shares identified with an acquisition of {}", rec.secs[*si], q, bq.show()),
                json!({"matched": q.to_string(), "acquired": bq.show()}),
            );
        }
    }
    // ---- C02 (iii) / C03: closing holding quantity and cost
    for (si, sec) in rec.secs.iter().enumerate() {
        let (eq, ec) = rec.pool[si];
        let h = report.holdings.iter().find(|h| &h.ticker == sec);
        let (oq, oc) = h.map(|h| (h.quantity, h.total_cost)).unwrap_or((Decimal::ZERO, Decimal::ZERO));
        if !eq.close_to(oq, tol()) {
            cx.push("C02", "closing_holding", format!("{sec}: closing holding {oq}, expected {}", eq.show()), json!({"observed": oq.to_string(), "expected": eq.show()}));
        }
        if !events && !ec.close_to(oc, tol()) {
            cx.push("C03", "closing_cost", format!("{sec}: closing cost {oc}, expected {}", ec.show()), json!({"observed": oc.to_string(), "expected": ec.show()}));
        }
        if oc < -tol() {
            cx.push("C11", "negative_holding_cost", format!("{sec}: holding cost {oc}"), json!({}));
        }
        // conservation evaluated on the implementation's own figures; with cost events the
        // expected total is purchases + effective net events, whatever the apportionment
        let total = obs_cost.get(&si).copied().unwrap_or(Decimal::ZERO) + oc;
        let spent = rec.total_spent(si);
        if !spent.close_to(total, tol()) {
            let ev = rec.ledger[si].iter().any(|c| !c.ac().is_zero() || !c.cr().is_zero());
            cx.push(
                if ev { "C11" } else { "C03" },
                if ev { "event_amount_not_conserved" } else { "cost_not_conserved" },
                format!("{sec}: legs + closing cost = {total}, expenditure (purchases + effective events) {}", spent.show()),
                json!({"observed": total.to_string(), "expected": spent.show()}),
            );
            if ev {
                cx.push("C03", "cost_not_conserved", format!("{sec}: legs + closing cost = {total}, expenditure {}", spent.show()), json!({}));
            }
        }
    }
    // ---- C07/C16 cheap structural checks on every report
    let ys: Vec<u16> = report.tax_years.iter().map(|y| y.period.start_year()).collect();
    if ys.windows(2).any(|w| w[0] >= w[1]) {
        cx.push("C07", "years_not_ascending", format!("tax years {:?}", ys), json!({}));
    }
}

fn variants(kind: &str, bases: &[NaiveDate], case_no: usize) -> Vec<Render> {
    let mut v = Vec::new();
    for (bi, b) in bases.iter().enumerate() {
        v.push(Render { base: *b, order: Order::Canonical, fills: Fills::One, lower: false, dividends: false, only: None });
        if bi > 0 { continue; }
        let orders = matches!(kind, "orders" | "all");
        let fills = matches!(kind, "fills" | "all");
        let mk = |order, fills, lower| Render { base: *b, order, fills, lower, dividends: false, only: None };
        if orders {
            v.push(mk(Order::Reversed, Fills::One, false));
            v.push(mk(Order::SellsFirst, Fills::One, false));
            v.push(mk(Order::ActionsFirst, Fills::One, false));
            v.push(mk(Order::Shuffled(case_no as u64), Fills::One, true));
            v.push(mk(Order::Shuffled(case_no as u64 + 1000003), Fills::One, false));
        }
        if fills {
            v.push(mk(Order::Canonical, Fills::Halves, false));
            v.push(mk(Order::Shuffled(case_no as u64 + 7), Fills::Halves, false));
            v.push(mk(Order::Canonical, Fills::HalvesSeparated, false));
            v.push(mk(Order::Reversed, Fills::HalvesSeparated, false));
            v.push(mk(Order::Canonical, Fills::BuysSeparated, false));
            v.push(mk(Order::Shuffled(case_no as u64 + 13), Fills::BuysSeparated, true));
            v.push(mk(Order::Interleaved, Fills::Halves, false));
        }
        if matches!(kind, "dividends") {
            v.push(mk(Order::Canonical, Fills::EventsSplit, false));
            v.push(mk(Order::Shuffled(case_no as u64 + 3), Fills::EventsSplit, false));
        }
        if matches!(kind, "dividends" | "all") {
            v.push(Render { base: *b, order: Order::Canonical, fills: Fills::One, lower: false, dividends: true, only: None });
        }
    }
    v
}

/// Observation of one execution for the TLC observation pass (Obs_Cgt.tla).
fn observation(case: u64, rec: &Rec, base: NaiveDate, res: &Res, events: &[cgt_core::verif::Event]) -> Option<serde_json::Value> {
    const MAXDEN: i128 = 100_000;
    let n = rec.n();
    let date_idx: HashMap<NaiveDate, usize> = (1..=n).map(|d| (date_of(rec, base, d), d)).collect();
    let r2 = |r: Rat| json!([r.n as i64, r.d as i64]);
    let mut dist = vec![vec![vec![Rat::ZERO; n]; n]; rec.secs.len()];
    let mut dec_dist: Vec<Vec<Vec<Decimal>>> = vec![vec![vec![Decimal::ZERO; n]; n]; rec.secs.len()];
    for e in events {
        if e.kind != "CostEvent" { continue; }
        let si = rec.sec_index(&e.ticker)?;
        let ed = *date_idx.get(&e.date)?;
        for (ld, delta) in &e.lots {
            let a = *date_idx.get(ld)?;
            dec_dist[si][ed - 1][a - 1] += *delta;
        }
    }
    for si in 0..rec.secs.len() {
        for e in 0..n {
            for a in 0..n {
                dist[si][e][a] = snap(dec_dist[si][e][a], MAXDEN)?;
            }
        }
    }
    let (status, legs, pool) = match res {
        Ok(Ok(report)) => {
            let mut agg: BTreeMap<(String, usize, String, usize), (Decimal, Decimal)> = BTreeMap::new();
            for y in &report.tax_years {
                for d in &y.disposals {
                    let di = *date_idx.get(&d.date)?;
                    for m in &d.matches {
                        let a = match (&m.rule, m.acquisition_date) {
                            (MatchRule::Section104, _) => 0,
                            (_, Some(ad)) => *date_idx.get(&ad)?,
                            _ => return None,
                        };
                        let e = agg.entry((d.ticker.clone(), di, rule_name(&m.rule).to_string(), a)).or_default();
                        e.0 += m.quantity;
                        e.1 += m.allowable_cost;
                    }
                }
            }
            let mut legs = Vec::new();
            for ((s, d, r, a), (q, c)) in agg {
                legs.push(json!([s, d, r, a, r2(snap(q, MAXDEN)?), r2(snap(c, MAXDEN)?)]));
            }
            let mut pool = Vec::new();
            for sec in &rec.secs {
                let h = report.holdings.iter().find(|h| &h.ticker == sec);
                let (q, c) = h.map(|h| (h.quantity, h.total_cost)).unwrap_or((Decimal::ZERO, Decimal::ZERO));
                pool.push(json!([r2(snap(q, MAXDEN)?), r2(snap(c, MAXDEN)?)]));
            }
            ("ok", legs, pool)
        }
        Ok(Err(msg)) => (if msg.contains("S122") { "refused" } else { "error" }, vec![], vec![]),
        Err(_) => return None,
    };
    let ledger: Vec<Vec<serde_json::Value>> = rec
        .ledger
        .iter()
        .map(|s| s.iter().map(|c| json!([r2(c.0), r2(c.1), r2(c.2), r2(c.3), r2(c.4), r2(c.5), r2(c.6), r2(c.7), r2(c.8), r2(c.9)])).collect())
        .collect();
    let dist_j: Vec<Vec<Vec<serde_json::Value>>> =
        dist.iter().map(|s| s.iter().map(|e| e.iter().map(|x| r2(*x)).collect()).collect()).collect();
    Some(json!({"case": case, "timing": rec.timing, "ledger": ledger, "dist": dist_j, "status": status, "legs": legs, "pool": pool}))
}

fn main() {
    let args = parse_args();
    cgtv::silence_panics();
    let lines = cgtv::tlc::tagged_lines(&args.input, "REPLAY").unwrap_or_else(|e| {
        eprintln!("cannot read {}: {e}", args.input);
        std::process::exit(2);
    });
    let recs: Vec<Rec> = cgtv::par::par_map(&lines, cgtv::par::threads(), |i, l| match serde_json::from_str::<Rec>(l) {
        Ok(r) => r,
        Err(e) => {
            eprintln!("bad REPLAY line {i}: {e}: {}", &l[..l.len().min(300)]);
            std::process::exit(2);
        }
    });
    drop(lines);
    // group the admissible outcomes of one input
    let mut groups: BTreeMap<String, Vec<usize>> = BTreeMap::new();
    let needs_group = recs.iter().any(|r| r.timing != "end" || r.has_events());
    let cases: Vec<Case> = if needs_group {
        for (i, r) in recs.iter().enumerate() {
            groups.entry(r.input_key()).or_default().push(i);
        }
        // on a tie between readings the implementation's own ("end") is reported
        groups.values().map(|ix| {
            let mut rs: Vec<&Rec> = ix.iter().map(|i| &recs[*i]).collect();
            rs.sort_by_key(|r| if r.timing == "end" { 0 } else { 1 });
            Case { recs: rs }
        }).collect()
    } else {
        recs.iter().map(|r| Case { recs: vec![r] }).collect()
    };
    let bases: Vec<NaiveDate> = base_dates().into_iter().take(args.bases.max(1)).collect();
    let config = full_config();
    let want_obs = args.obs.is_some();
    let results = cgtv::par::par_map(&cases, cgtv::par::threads(), |case_no, case| {
        let mut cnt = Counters::default();
        let mut findings: Vec<Finding> = Vec::new();
        let mut observations: Vec<String> = Vec::new();
        let rec0 = case.recs[0];
        // random-walk families may produce only ONE split-timing reading of a ledger that trades on a split
        // day; the other reading is equally admissible but unknown here, so such a case cannot be judged
        if rec0.trade_on_split_day() && !(case.recs.iter().any(|r| r.timing == "end") && case.recs.iter().any(|r| r.timing == "start")) && case.recs.iter().any(|r| r.timing == "start") {
            cnt.inc("skipped_single_timing_reading");
            return (findings, cnt, observations);
        }
        cnt.inc("cases");
        match rec0.status.as_str() {
            "ok" => cnt.inc("covered"),
            "refused" => cnt.inc("unabsorbable"),
            _ => cnt.inc("uncovered"),
        }
        if rec0.has_splits() { cnt.inc("with_splits"); }
        if rec0.has_events() { cnt.inc("with_events"); }
        if rec0.legs.iter().any(|l| l.rule() == "BedAndBreakfast") { cnt.inc("with_bnb"); }
        if case.recs.iter().any(|r| r.timing != rec0.timing) { cnt.inc("timing_ambiguous"); }
        let mut canon: Option<(String, Option<cgtv::summary::RepSum>)> = None;
        // the same ledger in another share unit: every quantity times 10^-7, every unit price times 10^7 (fund units, satoshi-like
        // fractions).  Money figures are unchanged and quantities scale; nothing in the rules knows a "small" quantity
        if args.micro && case.recs.len() == 1 && !rec0.has_events() {
            let k = Rat::new(1, 10_000_000);
            let mut m = rec0.clone();
            for sec in m.ledger.iter_mut() { for c in sec.iter_mut() {
                c.0 = c.0.mul(k); c.3 = c.3.mul(k);
                c.1 = c.1.div(k); c.4 = c.4.div(k);
            } }
            for g in m.legs.iter_mut() { g.4 = g.4.mul(k); }
            for pq in m.pool.iter_mut() { pq.0 = pq.0.mul(k); }
            let r = Render { base: bases[0], order: Order::Canonical, fills: Fills::One, lower: false, dividends: false, only: None };
            let txs = render(&m, &r);
            let cfg = &config;
            let t2 = txs.clone();
            let res: Res = guarded(move || calculate(&t2, None, None, cfg).map_err(|e| e.to_string()));
            cnt.inc("executions");
            cnt.inc("micro_unit_runs");
            let mut f = judge(case_no, &m, r.base, &txs, &res, &mut cnt);
            for x in f.iter_mut() { x.detail = format!("(quantities in units of 10^-7 shares) {}", x.detail); }
            findings.extend(f);
        }
        for r in variants(&args.variants, &bases, case_no) {
            let mut txs = render(rec0, &r);
            if r.lower {
                // ticker (and keyword) case only exists in the input formats: go through the real
                // parser with the whole text lower-cased
                let text = to_dsl(&txs).to_lowercase();
                match guarded(|| cgt_core::parser::parse_file(&text).map_err(|e| e.to_string())) {
                    Ok(Ok(t)) => txs = t,
                    Ok(Err(e)) => {
                        findings.push(Finding { prop: "C13".into(), kind: "lowercase_rejected".into(), case: case_no,
                            detail: format!("lower-cased rendering rejected by the parser: {e}"), input: text, data: json!({}) });
                        continue;
                    }
                    Err(p) => {
                        findings.push(Finding { prop: "C15".into(), kind: "panic".into(), case: case_no,
                            detail: format!("parser panicked: {p}"), input: text, data: json!({}) });
                        continue;
                    }
                }
            }
            let cfg = &config;
            let t2 = txs.clone();
            cgt_core::verif::start();
            let res: Res = guarded(move || calculate(&t2, None, None, cfg).map_err(|e| e.to_string()));
            let events = cgt_core::verif::finish();
            cnt.inc("executions");
            // accepted if it conforms to any admissible outcome
            let mut best: Option<Vec<Finding>> = None;
            for rec in &case.recs {
                let f = judge(case_no, rec, r.base, &txs, &res, &mut cnt);
                if f.is_empty() { best = Some(f); break; }
                if best.as_ref().map(|b| f.len() < b.len()).unwrap_or(true) { best = Some(f); }
            }
            let mut f = best.unwrap_or_default();
            // the implementation-shaped model fixes the per-lot spread of every cost event: compare it with the hooks
            if rec0.exact && rec0.has_events() && matches!(res, Ok(Ok(_))) {
                let n = rec0.n();
                let didx: HashMap<NaiveDate, usize> = (1..=n).map(|d| (date_of(rec0, r.base, d), d)).collect();
                let mut obs = vec![vec![Decimal::ZERO; n]; n];
                for e in events.iter().filter(|e| e.kind == "CostEvent") {
                    if let Some(ed) = didx.get(&e.date) {
                        for (ld, delta) in &e.lots { if let Some(a) = didx.get(ld) { obs[*ed - 1][*a - 1] += *delta; } }
                    }
                }
                if let Some(want) = rec0.dist.first() {
                    'outer: for e in 0..n { for a in 0..n {
                        if !want[e][a].close_to(obs[e][a], tol()) {
                            f.push(Finding { prop: "C11".into(), kind: "apportionment_differs".into(), case: case_no,
                                detail: format!("cost event of day#{} puts {} on the acquisition of day#{}; the matcher model (Matcher.tla) puts {}", e + 1, obs[e][a], a + 1, want[e][a].show()),
                                input: to_dsl(&txs), data: json!({}) });
                            break 'outer;
                        }
                    } }
                }
            }
            let plain = r.order == Order::Canonical && r.fills == Fills::One && !r.dividends;
            // the same ledger as DSL text through the cgt-tool binary: `report --format json` must be the library's report
            // (the observation point named by C01/C04/C05: exit status, standard output, the JSON figures)
            if plain && r.base == bases[0] && case_no % args.cli_every == 0 {
                if let Some(cli) = &args.cli {
                    let dir = std::env::temp_dir().join(format!("cgtv_cli_{}_{}", std::process::id(), case_no));
                    let _ = std::fs::create_dir_all(&dir);
                    let _ = std::fs::write(dir.join("l.cgt"), to_dsl(&txs));
                    let o = std::process::Command::new(cli).args(["report", "--format", "json", "l.cgt"]).current_dir(&dir).env("HOME", &dir).output();
                    let _ = std::fs::remove_dir_all(&dir);
                    cnt.inc("cli_runs");
                    match (o, &res) {
                        (Err(e), _) => { eprintln!("cannot run {cli}: {e}"); std::process::exit(2); }
                        (Ok(o), Ok(Ok(rep))) => {
                            let strip = |mut v: serde_json::Value| { if let Some(ys) = v["tax_years"].as_array_mut() { for y in ys { if let Some(m) = y.as_object_mut() { m.remove("exempt_amount"); } } } v };
                            let want = strip(cgtv::canon_numbers(&serde_json::to_value(rep).unwrap_or(json!(null))));
                            let got = serde_json::from_slice::<serde_json::Value>(&o.stdout).map(|v| strip(cgtv::canon_numbers(&v))).unwrap_or(json!("<not json>"));
                            if !o.status.success() || got != want {
                                f.push(Finding { prop: "C01".into(), kind: "cli_report_differs".into(), case: case_no,
                                    detail: format!("cgt-tool report --format json (exit {:?}) does not print the library's report for the same ledger: {} vs {}", o.status.code(),
                                        got.to_string().chars().take(300).collect::<String>(), want.to_string().chars().take(300).collect::<String>()),
                                    input: to_dsl(&txs), data: json!({}) });
                            }
                        }
                        (Ok(o), Ok(Err(_))) => {
                            if o.status.success() || !o.stdout.iter().all(|b| b.is_ascii_whitespace()) {
                                f.push(Finding { prop: "C05".into(), kind: "cli_report_on_refused_ledger".into(), case: case_no,
                                    detail: format!("the library refuses the ledger, yet cgt-tool exits {:?} with {} bytes on standard output", o.status.code(), o.stdout.len()),
                                    input: to_dsl(&txs), data: json!({}) });
                            }
                        }
                        _ => {}
                    }
                }
            }
            // C11 "spread only over shares already held": a disposal made, and matched to acquisitions made, before the
            // security's first cost event is the same with the events deleted (implementation vs implementation)
            if plain && r.base == bases[0] && rec0.has_events() {
                if let Ok(Ok(rep)) = &res {
                    let mut bare = rec0.clone();
                    for sec in bare.ledger.iter_mut() { for c in sec.iter_mut() { c.7 = Rat::ZERO; c.8 = Rat::ZERO; c.9 = Rat::ZERO; } }
                    let t3 = render(&bare, &r);
                    let res2: Res = guarded(move || calculate(&t3, None, None, cfg).map_err(|e| e.to_string()));
                    if let Ok(Ok(rep2)) = &res2 {
                        let (a, b) = (summarize(rep, None), summarize(rep2, None));
                        cnt.inc("earlier_disposal_comparisons");
                        'disp: for ((ticker, date), d) in &a.disposals {
                            let Some(si) = rec0.sec_index(ticker) else { continue };
                            let first = (1..=rec0.n()).filter(|k| { let c = &rec0.ledger[si][k - 1]; !c.ac().is_zero() || !c.cr().is_zero() })
                                .map(|k| date_of(rec0, r.base, k)).min();
                            let Some(first) = first else { continue };
                            if *date >= first || d.legs.keys().any(|(_, acq)| acq.map(|x| x >= first).unwrap_or(false)) { continue; }
                            if let Some(d2) = b.disposals.get(&(ticker.clone(), *date)) {
                                if (d.cost - d2.cost).abs() > tol() {
                                    f.push(Finding { prop: "C11".into(), kind: "event_changes_earlier_disposal".into(), case: case_no,
                                        detail: format!("the disposal of {ticker} on {date}, matched entirely to acquisitions before the first cost event ({first}), has allowable cost {} with the events and {} without them", d.cost.normalize(), d2.cost.normalize()),
                                        input: to_dsl(&txs), data: json!({"first_event": first.to_string()}) });
                                    break 'disp;
                                }
                            }
                        }
                    }
                }
            }
            // observation for the TLC pass: canonical rendering of event ledgers, one per timing reading
            if want_obs && plain && r.base == bases[0] && rec0.has_events() && rec0.status != "refused" {
                let mut seen = Vec::new();
                for rec in &case.recs {
                    if seen.contains(&rec.timing) { continue; }
                    seen.push(rec.timing.clone());
                    match observation(case_no as u64, rec, r.base, &res, &events) {
                        Some(o) => observations.push(o.to_string()),
                        None => cnt.inc("observation_not_representable"),
                    }
                }
            }
            // C06/C09/C11: every rendering of one ledger must give the same outcome as the
            // canonical rendering (implementation vs implementation, full precision)
            if r.base == bases[0] {
                let status = match &res { Ok(Ok(_)) => "ok".to_string(), Ok(Err(_)) => "err".to_string(), Err(_) => "panic".to_string() };
                let sum = match &res { Ok(Ok(rep)) => Some(summarize(rep, Some(SEP_TICKER))), _ => None };
                match &canon {
                    None => canon = Some((status, sum)),
                    Some((s0, sum0)) => {
                        cnt.inc("variant_comparisons");
                        let prop = if r.dividends || r.fills == Fills::EventsSplit { "C11" } else { "C06" };
                        if *s0 != status {
                            f.push(Finding { prop: prop.into(), kind: "variant_status".into(), case: case_no,
                                detail: format!("canonical rendering gives {s0}, rendering {:?}/{:?} gives {status}", r.order, r.fills),
                                input: to_dsl(&txs), data: json!({}) });
                        } else if let (Some(a), Some(b)) = (sum0, &sum) {
                            let d = compare(a, b, tol_proceeds(), !r.dividends);
                            if !d.deep.is_empty() {
                                f.push(Finding { prop: prop.into(), kind: if r.dividends { "dividend_changes_disposals".into() } else { "variant_value".into() }, case: case_no,
                                    detail: format!("rendering {:?}/{:?}{} differs from canonical: {}", r.order, r.fills, if r.dividends { "+dividends" } else { "" }, d.deep.join("; ")),
                                    input: to_dsl(&txs), data: json!({"diffs": d.deep}) });
                            } else if !d.shallow.is_empty() {
                                f.push(Finding { prop: prop.into(), kind: "leg_gain_apportionment".into(), case: case_no,
                                    detail: format!("rendering {:?}/{:?} splits a disposal's gain over its legs differently: {}", r.order, r.fills, d.shallow.join("; ")),
                                    input: to_dsl(&txs), data: json!({"diffs": d.shallow, "fills": format!("{:?}", r.fills)}) });
                            }
                        }
                    }
                }
            }
            if !f.is_empty() && !plain {
                for x in f.iter_mut() { x.data["variant"] = json!(format!("{:?}/{:?}", r.order, r.fills)); }
            }
            // a deviation that only the lower-cased text shows is a matter of ticker / keyword case: C09 and C13 as well
            if r.lower {
                let extra: Vec<Finding> = f.iter().filter(|x| x.prop == "C06" || x.prop == "C01").flat_map(|x| ["C09", "C13"].into_iter().map(move |p| { let mut y = x.clone(); y.prop = p.into(); y })).collect();
                f.extend(extra);
            }
            findings.extend(f);
            if findings.len() > 50 { break; }
        }
        // C09: each security's figures in the combined ledger equal those of its transactions alone
        // (implementation vs implementation; canonical and shuffled rendering)
        if rec0.secs.len() >= 2 && findings.len() <= 50 {
            for (order, fills) in [(Order::Canonical, Fills::One), (Order::Shuffled(case_no as u64 + 99), Fills::One), (Order::Shuffled(case_no as u64 + 199), Fills::Halves)] {
                let rall = Render { base: bases[0], order, fills, lower: false, dividends: false, only: None };
                let tall = render(rec0, &rall);
                let cfg = &config;
                let t2 = tall.clone();
                let full: Res = guarded(move || calculate(&t2, None, None, cfg).map_err(|e| e.to_string()));
                cnt.inc("executions");
                for si in 0..rec0.secs.len() {
                    let rone = Render { only: Some(si), ..rall };
                    let tone = render(rec0, &rone);
                    let t3 = tone.clone();
                    let one: Res = guarded(move || calculate(&t3, None, None, cfg).map_err(|e| e.to_string()));
                    cnt.inc("executions");
                    cnt.inc("projection_comparisons");
                    let sec = &rec0.secs[si];
                    match (&full, &one) {
                        (Ok(Ok(f)), Ok(Ok(o))) => {
                            let mut sf = summarize(f, None);
                            sf.disposals.retain(|k, _| k.0 == *sec);
                            sf.holdings.retain(|k, _| k == sec);
                            let so = summarize(o, None);
                            let d = compare(&sf, &so, tol_proceeds(), false);
                            if !d.deep.is_empty() || !d.shallow.is_empty() {
                                let mut all = d.deep.clone();
                                all.extend(d.shallow.clone());
                                // only the split of a disposal's gain over its legs differs: the line-adjacency defect D14
                                let kind = if d.deep.is_empty() { "leg_gain_apportionment" } else { "other_security_changes_figures" };
                                findings.push(Finding { prop: "C09".into(), kind: kind.into(), case: case_no,
                                    detail: format!("{sec}: figures in the combined ledger differ from those of its transactions alone: {}", all.join("; ")),
                                    input: to_dsl(&tall), data: json!({"diffs": all}) });
                            }
                        }
                        (Ok(Ok(_)), Ok(Err(e))) => findings.push(Finding { prop: "C09".into(), kind: "other_security_changes_status".into(), case: case_no,
                            detail: format!("{sec}: accepted in the combined ledger but refused alone: {e}"), input: to_dsl(&tall), data: json!({}) }),
                        (Ok(Err(e)), Ok(Ok(_))) => {
                            // fine if the refusal is about another security
                            if e.contains(sec.as_str()) && !rec0.secs.iter().any(|o| o != sec && e.contains(o.as_str())) {
                                findings.push(Finding { prop: "C09".into(), kind: "other_security_changes_status".into(), case: case_no,
                                    detail: format!("{sec}: accepted alone but refused in the combined ledger: {e}"), input: to_dsl(&tall), data: json!({}) });
                            }
                        }
                        _ => {}
                    }
                }
            }
        }
        (findings, cnt, observations)
    });
    let mut cnt = Counters::default();
    let mut out = std::io::BufWriter::new(std::fs::File::create(&args.out).unwrap_or_else(|e| {
        eprintln!("cannot write {}: {e}", args.out);
        std::process::exit(2);
    }));
    let mut obs_out = args.obs.as_ref().map(|p| {
        std::io::BufWriter::new(std::fs::File::create(p).unwrap_or_else(|e| {
            eprintln!("cannot write {p}: {e}");
            std::process::exit(2);
        }))
    });
    let mut nf = 0usize;
    let mut nobs = 0usize;
    for (fs, c, obs) in &results {
        cnt.merge(c);
        for f in fs {
            nf += 1;
            let _ = writeln!(out, "{}", serde_json::to_string(f).unwrap_or_default());
        }
        if let Some(o) = obs_out.as_mut() {
            for l in obs {
                nobs += 1;
                let _ = writeln!(o, "{l}");
            }
        }
    }
    let sample: Vec<String> = cases.iter().step_by((cases.len() / 3).max(1)).take(3).map(|c| {
        to_dsl(&render(c.recs[0], &Render { base: bases[0], order: Order::Canonical, fills: Fills::One, lower: false, dividends: false, only: None }))
    }).collect();
    println!("{}", json!({"records": recs.len(), "cases": cases.len(), "findings": nf, "observations": nobs, "counters": cnt.map, "samples": sample}));
}
