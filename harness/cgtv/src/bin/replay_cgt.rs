//! Replays MC_Cgt behaviours (REPLAY lines) against cgt_core::calculator::calculate
//! and reports every deviation, attributed to the property it violates.
//!
//! usage: replay_cgt --in TLC_LOG --out FINDINGS.ndjson [--bases K] [--variants none|orders|fills|all]

use cgt_core::calculator::calculate;
use cgt_core::{MatchRule, TaxReport, Transaction};
use cgtv::ledger::*;
use cgtv::rat::{Rat, tol, tol_proceeds};
use cgtv::{Counters, Finding, guarded};
use chrono::NaiveDate;
use rust_decimal::Decimal;
use serde_json::json;
use std::collections::{BTreeMap, HashMap};
use std::io::Write;

struct Args {
    input: String,
    out: String,
    bases: usize,
    variants: String,
}

fn parse_args() -> Args {
    let mut a = Args { input: String::new(), out: String::new(), bases: 2, variants: "none".into() };
    let v: Vec<String> = std::env::args().collect();
    let mut i = 1;
    while i < v.len() {
        match v[i].as_str() {
            "--in" => { a.input = v[i + 1].clone(); i += 1; }
            "--out" => { a.out = v[i + 1].clone(); i += 1; }
            "--bases" => { a.bases = v[i + 1].parse().unwrap_or(2); i += 1; }
            "--variants" => { a.variants = v[i + 1].clone(); i += 1; }
            _ => {}
        }
        i += 1;
    }
    a
}

fn rule_name(r: &MatchRule) -> &'static str {
    match r {
        MatchRule::SameDay => "SameDay",
        MatchRule::BedAndBreakfast => "BedAndBreakfast",
        MatchRule::Section104 => "Section104",
    }
}

#[derive(Default, Clone)]
struct Agg {
    q: Decimal,
    cost: Decimal,
    gain: Decimal,
}

/// One accepted outcome of the specification for an input (there are two when
/// the split-timing reading matters).
struct Case<'a> {
    recs: Vec<&'a Rec>,
}

struct Ctx<'a> {
    case_no: usize,
    rec: &'a Rec,
    base: NaiveDate,
    txs: &'a [Transaction],
    findings: Vec<Finding>,
}

impl<'a> Ctx<'a> {
    fn push(&mut self, prop: &str, kind: &str, detail: String, data: serde_json::Value) {
        self.findings.push(Finding {
            prop: prop.into(),
            kind: kind.into(),
            case: self.case_no,
            detail,
            input: to_dsl(self.txs),
            data,
        });
    }
}

/// Compare one implementation result with one specification outcome.
/// Returns findings (empty = conforms).
fn judge(case_no: usize, rec: &Rec, base: NaiveDate, txs: &[Transaction], res: &Result<Result<TaxReport, String>, String>, cnt: &mut Counters) -> Vec<Finding> {
    let mut cx = Ctx { case_no, rec, base, txs, findings: Vec::new() };
    match res {
        Err(p) => {
            cx.push("C15", "panic", format!("calculate panicked: {p}"), json!({}));
        }
        Ok(Err(msg)) => {
            if rec.status == "ok" {
                let kind = if msg.contains("S122") { "refused_capreturn" } else { "covered_refused" };
                cx.push("C05", kind, format!("covered ledger refused: {msg}"), json!({"message": msg}));
            } else {
                // must name an uncovered security and the date of the first uncovered day
                let d = rec.err_day().unwrap_or(1);
                let date = date_of(rec, base, d).format("%Y-%m-%d").to_string();
                let names_sec = rec.uncovered.iter().any(|s| msg.contains(s.as_str()));
                if !(names_sec && msg.contains(&date)) {
                    cx.push(
                        "C05",
                        "wrong_error",
                        format!("error does not name {:?} on {date}: {msg}", rec.uncovered),
                        json!({"message": msg, "expected_date": date, "expected_secs": rec.uncovered}),
                    );
                }
                cnt.inc("uncovered_refused");
            }
        }
        Ok(Ok(report)) => {
            if rec.status != "ok" {
                let d = rec.err_day().unwrap_or(1);
                let date = date_of(rec, base, d).format("%Y-%m-%d").to_string();
                cx.push(
                    "C05",
                    "uncovered_accepted",
                    format!("sale of {:?} on {date} is not covered by shares held, yet a report was produced", rec.uncovered),
                    json!({"expected_date": date, "expected_secs": rec.uncovered}),
                );
            } else {
                judge_report(&mut cx, report, cnt);
            }
        }
    }
    cx.findings
}

fn judge_report(cx: &mut Ctx, report: &TaxReport, cnt: &mut Counters) {
    let rec = cx.rec;
    let base = cx.base;
    let events = rec.has_events();
    // ---- expected disposals
    let mut exp: BTreeMap<(String, usize), Vec<&Leg>> = BTreeMap::new();
    for l in &rec.legs {
        exp.entry((l.sec().to_string(), l.d())).or_default().push(l);
    }
    // ---- observed disposals
    let mut obs: HashMap<(String, NaiveDate), &cgt_core::Disposal> = HashMap::new();
    let mut n_obs = 0usize;
    for y in &report.tax_years {
        for d in &y.disposals {
            if d.ticker == SEP_TICKER { continue; }
            n_obs += 1;
            if obs.insert((d.ticker.clone(), d.date), d).is_some() {
                cx.push("C04", "duplicate_disposal", format!("two disposals for {} on {}", d.ticker, d.date), json!({}));
            }
        }
    }
    if n_obs != exp.len() {
        cx.push(
            "C01",
            "disposal_count",
            format!("{} disposals reported, {} expected", n_obs, exp.len()),
            json!({"observed": n_obs, "expected": exp.len()}),
        );
    }
    let date_idx: HashMap<NaiveDate, usize> = (1..=rec.n()).map(|d| (date_of(rec, base, d), d)).collect();
    // per security, per acquisition day: shares identified with it (day-a units), from the observed legs
    let mut used: HashMap<(usize, usize), Decimal> = HashMap::new();
    let mut obs_cost: HashMap<usize, Decimal> = HashMap::new();
    let mut multi_rule = false;
    for ((sec, d), legs) in &exp {
        let si = match rec.sec_index(sec) { Some(i) => i, None => continue };
        let date = date_of(rec, base, *d);
        let cell = &rec.ledger[si][*d - 1];
        let Some(disp) = obs.get(&(sec.clone(), date)) else {
            cx.push("C01", "missing_disposal", format!("no disposal reported for {sec} on {date}"), json!({}));
            continue;
        };
        // ---- C02 (i): legs add up to the quantity sold
        let sumq: Decimal = disp.matches.iter().map(|m| m.quantity).sum();
        if !cell.sq().close_to(sumq, tol()) || !cell.sq().close_to(disp.quantity, tol()) {
            cx.push(
                "C02",
                "legs_vs_sold",
                format!("{sec} {date}: legs sum to {sumq}, disposal quantity {}, sold {}", disp.quantity, cell.sq().show()),
                json!({"legs_sum": sumq.to_string(), "sold": cell.sq().show()}),
            );
        }
        // ---- aggregate observed legs by (rule, acquisition day)
        let mut o: BTreeMap<(String, usize), Agg> = BTreeMap::new();
        for m in &disp.matches {
            let a = match (&m.rule, m.acquisition_date) {
                (MatchRule::Section104, _) => 0,
                (_, Some(ad)) => *date_idx.get(&ad).unwrap_or(&usize::MAX),
                (_, None) => usize::MAX,
            };
            let e = o.entry((rule_name(&m.rule).to_string(), a)).or_default();
            e.q += m.quantity;
            e.cost += m.allowable_cost;
            e.gain += m.gain_or_loss;
            *obs_cost.entry(si).or_default() += m.allowable_cost;
            if a != 0 && a != usize::MAX && a >= *d {
                let r = rec.ratio(si, *d, a);
                *used.entry((si, a)).or_default() += m.quantity * r.to_decimal();
            }
            if m.allowable_cost < -tol() {
                cx.push("C11", "negative_leg_cost", format!("{sec} {date}: leg with allowable cost {}", m.allowable_cost), json!({}));
            }
        }
        if legs.len() >= 2 { multi_rule = true; }
        // ---- C01: rule, quantity, acquisition date (and cost/proceeds/gain) of every leg
        let mut bad = Vec::new();
        let mut ekeys: BTreeMap<(String, usize), &Leg> = BTreeMap::new();
        for l in legs { ekeys.insert((l.rule().to_string(), l.a()), l); }
        for (k, l) in &ekeys {
            match o.get(k) {
                None => bad.push(format!("missing leg {} acq-day#{} qty {}", k.0, k.1, l.q().show())),
                Some(a) => {
                    if !l.q().close_to(a.q, tol()) {
                        bad.push(format!("leg {} acq-day#{}: qty {} expected {}", k.0, k.1, a.q, l.q().show()));
                    } else {
                        if !l.cost().close_to(a.cost, tol()) {
                            bad.push(format!("leg {} acq-day#{}: cost {} expected {}", k.0, k.1, a.cost, l.cost().show()));
                        }
                        if !l.gain().close_to(a.gain, tol_proceeds()) {
                            bad.push(format!("leg {} acq-day#{}: gain {} expected {}", k.0, k.1, a.gain, l.gain().show()));
                        }
                    }
                }
            }
        }
        for (k, a) in &o {
            if !ekeys.contains_key(k) {
                bad.push(format!("unexpected leg {} acq-day#{} qty {}", k.0, k.1, a.q));
            }
        }
        let gross = legs.iter().fold(Rat::ZERO, |s, l| s.add(l.gross()));
        let net = legs.iter().fold(Rat::ZERO, |s, l| s.add(l.net()));
        if !gross.close_to(disp.gross_proceeds, tol_proceeds()) {
            bad.push(format!("gross proceeds {} expected {}", disp.gross_proceeds, gross.show()));
        }
        if !net.close_to(disp.proceeds, tol_proceeds()) {
            bad.push(format!("net proceeds {} expected {}", disp.proceeds, net.show()));
        }
        if !bad.is_empty() {
            let exp_legs: Vec<String> = legs.iter().map(|l| format!("{}#{} q={} cost={}", l.rule(), l.a(), l.q().show(), l.cost().show())).collect();
            let obs_legs: Vec<String> = disp.matches.iter().map(|m| format!("{}@{:?} q={} cost={}", rule_name(&m.rule), m.acquisition_date, m.quantity, m.allowable_cost)).collect();
            // with cost events only rule/quantity/date are C01's business; costs are judged by C03/C11
            let structural = bad.iter().any(|b| b.contains("qty") || b.contains("missing") || b.contains("unexpected"));
            if structural || !events {
                cx.push(
                    "C01",
                    if structural { "leg_identification" } else { "leg_value" },
                    format!("{sec} {date}: {}", bad.join("; ")),
                    json!({"expected": exp_legs, "observed": obs_legs}),
                );
            } else {
                cx.push("C03", "leg_cost_with_events", format!("{sec} {date}: {}", bad.join("; ")), json!({"expected": exp_legs, "observed": obs_legs}));
            }
        }
    }
    if multi_rule { cnt.inc("multi_leg_disposals"); }
    // ---- C02 (ii): shares matched against one day's acquisition never exceed it
    for ((si, a), q) in &used {
        let bq = rec.ledger[*si][*a - 1].bq();
        if *q > bq.to_decimal() + tol() {
            cx.push(
                "C02",
                "acquisition_overmatched",
                format!("{} acquisition day#{a}: {} shares identified with an acquisition of {}", rec.secs[*si], q, bq.show()),
                json!({"matched": q.to_string(), "acquired": bq.show()}),
            );
        }
    }
    // ---- C02 (iii) / C03: closing holding quantity and cost
    for (si, sec) in rec.secs.iter().enumerate() {
        let (eq, ec) = rec.pool[si];
        let h = report.holdings.iter().find(|h| &h.ticker == sec);
        let (oq, oc) = h.map(|h| (h.quantity, h.total_cost)).unwrap_or((Decimal::ZERO, Decimal::ZERO));
        if !eq.close_to(oq, tol()) {
            cx.push("C02", "closing_holding", format!("{sec}: closing holding {oq}, expected {}", eq.show()), json!({"observed": oq.to_string(), "expected": eq.show()}));
        }
        if !events && !ec.close_to(oc, tol()) {
            cx.push("C03", "closing_cost", format!("{sec}: closing cost {oc}, expected {}", ec.show()), json!({"observed": oc.to_string(), "expected": ec.show()}));
        }
        if oc < -tol() {
            cx.push("C11", "negative_holding_cost", format!("{sec}: holding cost {oc}"), json!({}));
        }
        // conservation evaluated on the implementation's own figures
        let total = obs_cost.get(&si).copied().unwrap_or(Decimal::ZERO) + oc;
        let spent = rec.total_spent(si);
        if !events && !spent.close_to(total, tol()) {
            cx.push("C03", "cost_not_conserved", format!("{sec}: legs + closing cost = {total}, expenditure {}", spent.show()), json!({"observed": total.to_string(), "expected": spent.show()}));
        }
    }
    // ---- C07/C16 cheap structural checks on every report
    let ys: Vec<u16> = report.tax_years.iter().map(|y| y.period.start_year()).collect();
    if ys.windows(2).any(|w| w[0] >= w[1]) {
        cx.push("C07", "years_not_ascending", format!("tax years {:?}", ys), json!({}));
    }
}

fn variants(kind: &str, rec: &Rec, bases: &[NaiveDate], case_no: usize) -> Vec<Render> {
    let mut v = Vec::new();
    for (bi, b) in bases.iter().enumerate() {
        v.push(Render { base: *b, order: Order::Canonical, fills: Fills::One, lower: false });
        if bi > 0 { continue; }
        let orders = matches!(kind, "orders" | "all");
        let fills = matches!(kind, "fills" | "all");
        if orders {
            v.push(Render { base: *b, order: Order::Reversed, fills: Fills::One, lower: false });
            v.push(Render { base: *b, order: Order::SellsFirst, fills: Fills::One, lower: false });
            v.push(Render { base: *b, order: Order::ActionsFirst, fills: Fills::One, lower: false });
            v.push(Render { base: *b, order: Order::Shuffled(case_no as u64), fills: Fills::One, lower: true });
        }
        if fills {
            v.push(Render { base: *b, order: Order::Canonical, fills: Fills::Halves, lower: false });
            v.push(Render { base: *b, order: Order::Shuffled(case_no as u64 + 7), fills: Fills::Halves, lower: false });
            v.push(Render { base: *b, order: Order::Canonical, fills: Fills::HalvesSeparated, lower: false });
            v.push(Render { base: *b, order: Order::Reversed, fills: Fills::HalvesSeparated, lower: false });
        }
        let _ = rec;
    }
    v
}

fn main() {
    let args = parse_args();
    cgtv::silence_panics();
    let lines = cgtv::tlc::tagged_lines(&args.input, "REPLAY").unwrap_or_else(|e| {
        eprintln!("cannot read {}: {e}", args.input);
        std::process::exit(2);
    });
    let recs: Vec<Rec> = cgtv::par::par_map(&lines, cgtv::par::threads(), |i, l| match serde_json::from_str::<Rec>(l) {
        Ok(r) => r,
        Err(e) => {
            eprintln!("bad REPLAY line {i}: {e}: {}", &l[..l.len().min(300)]);
            std::process::exit(2);
        }
    });
    drop(lines);
    // group the outcomes of one input (one per split-timing reading)
    let mut groups: BTreeMap<String, Vec<usize>> = BTreeMap::new();
    let needs_group = recs.iter().any(|r| r.timing != "end");
    let cases: Vec<Case> = if needs_group {
        for (i, r) in recs.iter().enumerate() {
            groups.entry(r.input_key()).or_default().push(i);
        }
        groups.values().map(|ix| Case { recs: ix.iter().map(|i| &recs[*i]).collect() }).collect()
    } else {
        recs.iter().map(|r| Case { recs: vec![r] }).collect()
    };
    let bases: Vec<NaiveDate> = base_dates().into_iter().take(args.bases.max(1)).collect();
    let config = full_config();
    let results = cgtv::par::par_map(&cases, cgtv::par::threads(), |case_no, case| {
        let mut cnt = Counters::default();
        let mut findings: Vec<Finding> = Vec::new();
        let rec0 = case.recs[0];
        cnt.inc("cases");
        if rec0.status == "ok" { cnt.inc("covered"); } else { cnt.inc("uncovered"); }
        if rec0.has_splits() { cnt.inc("with_splits"); }
        if rec0.has_events() { cnt.inc("with_events"); }
        if rec0.legs.iter().any(|l| l.rule() == "BedAndBreakfast") { cnt.inc("with_bnb"); }
        if case.recs.len() > 1 { cnt.inc("timing_ambiguous"); }
        let mut first_summary: Option<String> = None;
        for r in variants(&args.variants, rec0, &bases, case_no) {
            let txs = render(rec0, &r);
            let cfg = &config;
            let t2 = txs.clone();
            let res = guarded(move || calculate(&t2, None, None, cfg).map_err(|e| e.to_string()));
            cnt.inc("executions");
            // accepted if it conforms to any admissible outcome
            let mut best: Option<Vec<Finding>> = None;
            for rec in &case.recs {
                let f = judge(case_no, rec, r.base, &txs, &res, &mut cnt);
                if f.is_empty() { best = Some(f); break; }
                if best.as_ref().map(|b| f.len() < b.len()).unwrap_or(true) { best = Some(f); }
            }
            let mut f = best.unwrap_or_default();
            // C06/C09: every rendering of one ledger must give the same outcome (status level here;
            // value level follows from comparing each with the same specification outcome)
            let summ = match &res { Ok(Ok(_)) => "ok".to_string(), Ok(Err(_)) => "err".to_string(), Err(_) => "panic".to_string() };
            if r.base == bases[0] {
                match &first_summary {
                    None => first_summary = Some(summ),
                    Some(s0) => if *s0 != summ {
                        f.push(Finding { prop: "C06".into(), kind: "variant_status".into(), case: case_no,
                            detail: format!("canonical rendering gives {s0}, this rendering gives {summ}"),
                            input: to_dsl(&txs), data: json!({}) });
                    }
                }
            }
            // a deviation seen only under a non-canonical rendering is (also) an order/fill dependence
            if !f.is_empty() && (r.order != Order::Canonical || r.fills != Fills::One) {
                for x in f.iter_mut() { x.data["variant"] = json!(format!("{:?}/{:?}", r.order, r.fills)); }
            }
            findings.extend(f);
            if findings.len() > 50 { break; }
        }
        (findings, cnt)
    });
    let mut cnt = Counters::default();
    let mut out = std::io::BufWriter::new(std::fs::File::create(&args.out).unwrap_or_else(|e| {
        eprintln!("cannot write {}: {e}", args.out);
        std::process::exit(2);
    }));
    let mut nf = 0usize;
    for (fs, c) in &results {
        cnt.merge(c);
        for f in fs {
            nf += 1;
            let _ = writeln!(out, "{}", serde_json::to_string(f).unwrap_or_default());
        }
    }
    let sample: Vec<String> = cases.iter().step_by((cases.len() / 3).max(1)).take(3).map(|c| {
        to_dsl(&render(c.recs[0], &Render { base: bases[0], order: Order::Canonical, fills: Fills::One, lower: false }))
    }).collect();
    println!("{}", json!({"records": recs.len(), "findings": nf, "counters": cnt.map, "samples": sample}));
}
