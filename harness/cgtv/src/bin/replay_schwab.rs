//! Replays MC_Schwab (SCHWAB lines) and MC_Awards (AWARDS lines) against the real converter (C18, C19).
//!
//! usage: replay_schwab --in TLC_LOG --out FINDINGS.ndjson

use cgt_converter::BrokerConverter;
use cgt_converter::schwab::{SchwabConverter, SchwabInput};
use cgt_core::calculator::calculate;
use cgt_core::parser::parse_file;
use cgt_core::{Operation, Transaction};
use cgtv::{Counters, Finding, guarded};
use chrono::{Duration, NaiveDate};
use rust_decimal::Decimal;
use serde::Deserialize;
use serde_json::json;
use std::collections::BTreeMap;
use std::io::Write;
use std::str::FromStr;

#[derive(Debug, Clone, Deserialize, PartialEq)]
struct Row { kind: String, date: i64, sym: String, qty: String, price: String, fees: String, amount: String, text: String, asof: bool }
#[derive(Debug, Clone, Deserialize)]
struct Line { cmd: String, date: i64, sym: String, qty: String, price: String, fees: String, tax: Vec<String> }
#[derive(Debug, Clone, Deserialize)]
struct SchwabRec { rows: Vec<Row>, lines: Vec<Line>, skipped: usize, comments: usize, warnings: usize }
#[derive(Debug, Clone, Deserialize)]
struct Detail { kind: String, vdate: i64, price: String, #[serde(default)] fprice: String }
#[derive(Debug, Clone, Deserialize)]
struct Entry { date: i64, sym: String, details: Vec<Detail>, order: String }
#[derive(Debug, Clone, Deserialize)]
struct AwardsRec { entries: Vec<Entry>, dep: i64, sym: String, admissible: Vec<(String, i64, String)>, sym2: String, admissible2: Vec<(String, i64, String)> }

fn day(base: NaiveDate, idx: i64) -> NaiveDate { base + Duration::days(idx) }
fn us(d: NaiveDate) -> String { d.format("%m/%d/%Y").to_string() }

fn action(kind: &str) -> &str {
    match kind {
        "Buy" => "Buy", "Sell" => "Sell", "CancelSell" => "Cancel Sell", "CashDividend" => "Cash Dividend",
        "QualifiedDividend" => "Qualified Dividend", "ShortTermCapGain" => "Short Term Cap Gain", "LongTermCapGain" => "Long Term Cap Gain",
        "NraWithholding" => "NRA Withholding", "NraTaxAdj" => "NRA Tax Adj", "StockSplit" => "Stock Split", "Journal" => "Journal",
        "WireSent" => "Wire Sent", "CreditInterest" => "Credit Interest", "ServiceFee" => "Service Fee",
        _ => "Weird New Action",
    }
}

fn text_of(class: &str) -> String {
    match class {
        "hash" => "note # with a hash".into(),
        "lf" => "first line\n2023-03-04 BUY EVIL 1 @ 1 USD".into(),
        "cr" => "first line\r2023-03-04 SELL EVIL 1 @ 1 USD #".into(),
        "crlf" => "first line\r\n2023-03-04 BUY EVIL 1 @ 1 USD".into(),
        "dsl_line" => "2023-03-04 BUY EVIL 1 @ 1 USD".into(),
        "unicode" => "déjà vu — ✓ £".into(),
        _ => "ordinary description".into(),
    }
}

fn dollars(s: &str) -> String {
    if s.is_empty() { return String::new(); }
    match s.strip_prefix('-') { Some(r) => format!("-${r}"), None => format!("${s}") }
}

fn export_json(rows: &[Row], base: NaiveDate) -> String {
    let items: Vec<serde_json::Value> = rows.iter().map(|r| {
        // Schwab books "Cancel Sell" a day later "as of" the trade date
        let date = if r.asof { format!("{} as of {}", us(day(base, r.date + 1)), us(day(base, r.date))) } else { us(day(base, r.date)) };
        json!({"Date": date, "Action": action(&r.kind), "Symbol": r.sym, "Description": text_of(&r.text),
               "Quantity": r.qty, "Price": dollars(&r.price), "Fees & Comm": dollars(&r.fees), "Amount": dollars(&r.amount)})
    }).collect();
    json!({"FromDate": "01/01/2023", "ToDate": "12/31/2023", "TotalTransactionsAmount": "$0.00", "BrokerageTransactions": items}).to_string()
}

type Bag = BTreeMap<String, usize>;
fn dec(s: &str) -> Decimal { Decimal::from_str(s).unwrap_or_default() }

fn expected_bag(rec: &SchwabRec, base: NaiveDate) -> (Bag, BTreeMap<String, (Decimal, Decimal)>) {
    let mut bag = Bag::new();
    let mut divs: BTreeMap<String, (Decimal, Decimal)> = BTreeMap::new();
    for l in &rec.lines {
        let d = day(base, l.date);
        if l.cmd == "DIVIDEND" {
            let e = divs.entry(format!("{d} {}", l.sym)).or_default();
            e.0 += dec(&l.price).abs();
            e.1 += l.tax.iter().map(|t| dec(t).abs()).sum::<Decimal>();
        } else {
            let fees = if l.fees.is_empty() { Decimal::ZERO } else { dec(&l.fees) };
            *bag.entry(format!("{d} {} {} {} @ {} fees {}", l.cmd, l.sym, dec(&l.qty).normalize(), dec(&l.price).normalize(), fees.normalize())).or_default() += 1;
        }
    }
    (bag, divs)
}

fn observed_bag(txs: &[Transaction]) -> (Bag, BTreeMap<String, (Decimal, Decimal)>, Vec<String>) {
    let mut bag = Bag::new();
    let mut divs: BTreeMap<String, (Decimal, Decimal)> = BTreeMap::new();
    let mut other = Vec::new();
    for t in txs {
        match &t.operation {
            Operation::Buy { amount, price, fees } | Operation::Sell { amount, price, fees } => {
                let cmd = if matches!(t.operation, Operation::Buy { .. }) { "BUY" } else { "SELL" };
                if price.code() != "USD" { other.push(format!("{t:?}")); }
                *bag.entry(format!("{} {cmd} {} {} @ {} fees {}", t.date, t.ticker, amount.normalize(), price.amount.normalize(), fees.amount.normalize())).or_default() += 1;
            }
            Operation::Dividend { total_value, tax_paid } => {
                let e = divs.entry(format!("{} {}", t.date, t.ticker)).or_default();
                e.0 += total_value.amount;
                e.1 += tax_paid.amount;
            }
            _ => other.push(format!("{t:?}")),
        }
    }
    (bag, divs, other)
}

fn convert(tx_json: &str, awards: Option<String>) -> Result<Result<cgt_converter::ConvertOutput, String>, String> {
    let input = SchwabInput { transactions_json: tx_json.to_string(), awards_json: awards };
    guarded(move || SchwabConverter::new().convert(&input).map_err(|e| e.to_string()))
}

fn permutations(n: usize) -> Vec<Vec<usize>> {
    fn rec(cur: &mut Vec<usize>, used: &mut Vec<bool>, n: usize, out: &mut Vec<Vec<usize>>) {
        if cur.len() == n { out.push(cur.clone()); return; }
        for i in 0..n { if !used[i] { used[i] = true; cur.push(i); rec(cur, used, n, out); cur.pop(); used[i] = false; } }
    }
    let mut out = Vec::new();
    rec(&mut Vec::new(), &mut vec![false; n], n, &mut out);
    out
}

fn main() {
    let v: Vec<String> = std::env::args().collect();
    let (mut input, mut out) = (String::new(), String::new());
    let mut i = 1;
    while i < v.len() {
        match v[i].as_str() {
            "--in" => { input = v[i + 1].clone(); i += 1; }
            "--out" => { out = v[i + 1].clone(); i += 1; }
            _ => {}
        }
        i += 1;
    }
    cgtv::silence_panics();
    let srecs: Vec<SchwabRec> = cgtv::tlc::tagged_lines(&input, "SCHWAB").unwrap_or_default().iter().map(|l| serde_json::from_str(l).unwrap_or_else(|e| { eprintln!("bad SCHWAB line: {e}: {}", &l[..l.len().min(300)]); std::process::exit(2); })).collect();
    let arecs: Vec<AwardsRec> = cgtv::tlc::tagged_lines(&input, "AWARDS").unwrap_or_default().iter().map(|l| serde_json::from_str(l).unwrap_or_else(|e| { eprintln!("bad AWARDS line: {e}: {}", &l[..l.len().min(300)]); std::process::exit(2); })).collect();
    let base = NaiveDate::from_ymd_opt(2023, 2, 27).unwrap_or_default(); // day 2 = 1 March, day 3 = 2 March
    let fx = cgt_money::load_default_cache().ok();
    let cfg = cgtv::ledger::full_config();
    let mut cnt = Counters::default();
    let mut findings: Vec<Finding> = Vec::new();

    // ---------------------------------------------------------------- C18
    let results = cgtv::par::par_map(&srecs, cgtv::par::threads(), |case_no, rec| {
        let mut c = Counters::default();
        let mut fs: Vec<Finding> = Vec::new();
        let js = export_json(&rec.rows, base);
        let mut push = |kind: &str, detail: String| fs.push(Finding { prop: "C18".into(), kind: kind.into(), case: case_no, detail, input: js.clone(), data: json!({}) });
        c.inc("exports");
        c.inc("executions");
        if rec.rows.iter().any(|r| r.kind == "CancelSell") { c.inc("with_cancel"); }
        if rec.rows.iter().any(|r| r.kind == "Unknown" && r.text != "plain") { c.inc("hostile_text"); }
        let res = convert(&js, None);
        let outp = match res {
            Err(p) => { push("panic", format!("converter panicked: {p}")); return (fs, c); }
            Ok(Err(e)) => { push("export_rejected", format!("a well-formed export was refused: {e}")); return (fs, c); }
            Ok(Ok(o)) => o,
        };
        // valid DSL whatever the free text contains
        let parsed = match guarded(|| parse_file(&outp.cgt_content).map_err(|e| e.to_string())) {
            Ok(Ok(t)) => t,
            Ok(Err(e)) => { push("invalid_dsl", format!("the converter's output does not parse: {}", e.lines().take(5).collect::<Vec<_>>().join(" / "))); return (fs, c); }
            Err(p) => { push("panic", format!("parser panicked on converter output: {p}")); return (fs, c); }
        };
        let (ebag, edivs) = expected_bag(rec, base);
        let (obag, odivs, other) = observed_bag(&parsed);
        if !other.is_empty() { push("invented_line", format!("output contains transactions that no row of the export describes: {:?}", other)); }
        if ebag != obag {
            let missing: Vec<String> = ebag.iter().filter(|(k, n)| obag.get(*k).copied().unwrap_or(0) < **n).map(|(k, n)| format!("{k} x{n} (got {})", obag.get(k).copied().unwrap_or(0))).collect();
            let extra: Vec<String> = obag.iter().filter(|(k, n)| ebag.get(*k).copied().unwrap_or(0) < **n).map(|(k, n)| format!("{k} x{n} (expected {})", ebag.get(k).copied().unwrap_or(0))).collect();
            push("trade_lines", format!("BUY/SELL lines differ from the export: missing {:?}; unexpected {:?}", missing, extra));
        }
        if edivs != odivs { push("dividend_totals", format!("dividend / withholding totals per (date, symbol): {:?}, expected {:?}", odivs, edivs)); }
        if outp.skipped_count != rec.skipped { push("skipped_count", format!("skipped_count {}, expected {}", outp.skipped_count, rec.skipped)); }
        if outp.warnings.len() != rec.warnings { push("warnings", format!("{} warnings, expected {}: {:?}", outp.warnings.len(), rec.warnings, outp.warnings)); }
        let ncomments = outp.cgt_content.lines().filter(|l| l.starts_with("# SKIPPED: ") && !l.contains("transactions not CGT-relevant") || l.starts_with("# UNSUPPORTED: ")).count();
        if ncomments != rec.comments { push("comments", format!("{ncomments} comment lines for unsupported rows, expected {}", rec.comments)); }
        if parsed.windows(2).any(|w| w[0].date > w[1].date) { push("not_chronological", "output lines are not in chronological order".into()); }
        // row-order independence (implementation vs implementation)
        let n = rec.rows.len();
        if n >= 2 && n <= 4 {
            let perms = permutations(n);
            let step = if n == 4 { 5 } else { 1 };
            for p in perms.iter().skip(1).step_by(step) {
                let rows2: Vec<Row> = p.iter().map(|i| rec.rows[*i].clone()).collect();
                c.inc("executions");
                c.inc("permutations");
                match convert(&export_json(&rows2, base), None) {
                    Ok(Ok(o2)) => {
                        let p2 = parse_file(&o2.cgt_content).unwrap_or_default();
                        let (b2, d2, _) = observed_bag(&p2);
                        let mut w1 = outp.warnings.clone(); w1.sort();
                        let mut w2 = o2.warnings.clone(); w2.sort();
                        if b2 != obag || d2 != odivs || o2.skipped_count != outp.skipped_count || w1 != w2 {
                            push("row_order", format!("row order {:?} changes the conversion: {:?} / {:?} vs {:?} / {:?}", p, b2, d2, obag, odivs));
                            break;
                        }
                    }
                    other => { push("row_order", format!("row order {:?}: conversion fails: {:?}", p, other.map(|r| r.map(|_| ())))); break; }
                }
            }
        }
        // date-disjoint chunks converted separately and reported together equal the whole
        if let Some(fx) = &fx {
            let has1 = rec.rows.iter().any(|r| r.date <= 1);
            let has2 = rec.rows.iter().any(|r| r.date >= 2);
            if has1 && has2 {
                let a: Vec<Row> = rec.rows.iter().filter(|r| r.date <= 1).cloned().collect();
                let b: Vec<Row> = rec.rows.iter().filter(|r| r.date >= 2).cloned().collect();
                if let (Ok(Ok(oa)), Ok(Ok(ob))) = (convert(&export_json(&a, base), None), convert(&export_json(&b, base), None)) {
                    c.inc("chunkings");
                    c.add("executions", 2);
                    let joined = format!("{}\n{}", oa.cgt_content, ob.cgt_content);
                    let whole = parse_file(&outp.cgt_content).unwrap_or_default();
                    let parts = parse_file(&joined);
                    match parts {
                        Err(e) => push("chunks_invalid", format!("concatenated chunk outputs do not parse: {e}")),
                        Ok(parts) => {
                            let r1 = guarded(|| calculate(&whole, None, Some(fx), &cfg).map(|r| (r.tax_years, r.holdings)).map_err(|e| e.to_string()));
                            let r2 = guarded(|| calculate(&parts, None, Some(fx), &cfg).map(|r| (r.tax_years, r.holdings)).map_err(|e| e.to_string()));
                            match (r1, r2) {
                                (Ok(Ok(x)), Ok(Ok(y))) => if x != y { push("chunking", "converting date-disjoint chunks and reporting them together differs from converting the whole".into()); },
                                (Ok(Err(_)), Ok(Err(_))) => {}
                                (x, y) => push("chunking", format!("whole export and its chunks disagree on acceptance: {:?} vs {:?}", x.map(|r| r.map(|_| ())), y.map(|r| r.map(|_| ())))),
                            }
                        }
                    }
                }
            }
        }
        (fs, c)
    });
    for (fs, c) in results { findings.extend(fs); cnt.merge(&c); }

    // ---------------------------------------------------------------- C19
    let bases = [(2023, 11, 1), (2023, 9, 24), (2023, 11, 25), (2024, 2, 22), (2022, 9, 24)]; // day 100: 9 Feb, 2 Jan, 4 Mar (leap), 1 Jun, 2 Jan
    let aresults = cgtv::par::par_map(&arecs, cgtv::par::threads(), |case_no, rec| {
        let mut c = Counters::default();
        let mut fs: Vec<Finding> = Vec::new();
        let mut fs2: Vec<Finding> = Vec::new();
        for (bi, (y, m, d)) in bases.iter().enumerate() {
            let base = NaiveDate::from_ymd_opt(*y, *m, *d).unwrap_or_default();
            for sym_case in ["upper", "mixed"] {
                if bi > 0 && sym_case == "mixed" { continue; }
                let entries: Vec<serde_json::Value> = rec.entries.iter().map(|e| {
                    let mut ds: Vec<&Detail> = e.details.iter().collect();
                    // "fv": the fallback detail comes first, "vf": the vest detail first
                    ds.sort_by_key(|x| if (x.kind == "fallback") == (e.order == "fv") { 0 } else { 1 });
                    let details: Vec<serde_json::Value> = ds.iter().map(|x| {
                        if x.kind == "both" {
                            if x.vdate == 0 { json!({"Details": {"VestFairMarketValue": format!("${}", x.price), "FairMarketValuePrice": format!("${}", x.fprice)}}) }
                            else { json!({"Details": {"FairMarketValuePrice": format!("${}", x.fprice), "VestDate": us(day(base, x.vdate)), "VestFairMarketValue": format!("${}", x.price)}}) }
                        } else if x.kind == "vest" {
                            if x.vdate == 0 { json!({"Details": {"VestFairMarketValue": format!("${}", x.price)}}) }
                            else { json!({"Details": {"VestDate": us(day(base, x.vdate)), "VestFairMarketValue": format!("${}", x.price)}}) }
                        } else { json!({"Details": {"FairMarketValuePrice": format!("${}", x.price)}}) }
                    }).collect();
                    json!({"Date": us(day(base, e.date)), "Action": "Deposit", "Symbol": e.sym, "Description": "RS", "Quantity": "10", "TransactionDetails": details})
                }).collect();
                let dep = day(base, rec.dep);
                // the export period in the awards file's header is a property of the download, not of the look-up: a period
                // that ends the day before the deposit (vests just before a year end, deposit just after) changes nothing
                let awards = match bi % 3 {
                    1 => json!({"FromDate": "01/01/2020", "ToDate": us(dep - chrono::Duration::days(1)), "Transactions": entries}),
                    2 => json!({"FromDate": us(dep - chrono::Duration::days(3)), "ToDate": us(dep - chrono::Duration::days(2)), "Transactions": entries}),
                    _ => json!({"FromDate": "01/01/2020", "ToDate": "12/31/2025", "Transactions": entries}),
                }.to_string();
                let sym = if sym_case == "mixed" { "Acme".to_string() } else { rec.sym.clone() };
                let tx = json!({"BrokerageTransactions": [{"Date": us(dep), "Action": "Stock Plan Activity", "Symbol": sym, "Description": "RS", "Quantity": "10", "Price": "", "Fees & Comm": "", "Amount": ""}]}).to_string();
                let inp = format!("awards: {awards}\ntransactions: {tx}");
                let mut push = |kind: &str, detail: String| fs.push(Finding { prop: "C19".into(), kind: kind.into(), case: case_no, detail, input: inp.clone(), data: json!({"admissible": rec.admissible}) });
                c.inc("executions");
                c.inc("lookups");
                if rec.admissible.is_empty() { c.inc("expected_failures"); }
                if rec.admissible.iter().any(|a| a.1 != rec.dep) { c.inc("look_back"); }
                match convert(&tx, Some(awards.clone())) {
                    Err(p) => push("panic", format!("converter panicked: {p}")),
                    Ok(Err(e)) => {
                        if !rec.admissible.is_empty() { push("vest_not_found", format!("a vest entry within seven days exists, yet conversion failed: {e}")); }
                        else if !(e.to_lowercase().contains(&sym.to_lowercase()) && e.contains(&dep.to_string())) { push("error_text", format!("the failure does not name the symbol and the date: {e}")); }
                    }
                    Ok(Ok(o)) => {
                        let txs = parse_file(&o.cgt_content).unwrap_or_default();
                        let buy = txs.iter().find_map(|t| match &t.operation { Operation::Buy { amount, price, .. } => Some((t.date, *amount, price.amount)), _ => None });
                        match buy {
                            None => push("no_buy", "conversion succeeded without a BUY line".into()),
                            Some((date, _, price)) => {
                                if rec.admissible.is_empty() { push("invented_cost", format!("no awards entry within seven days before the deposit, yet a BUY dated {date} at {price} was produced")); }
                                else if !rec.admissible.iter().any(|a| day(base, a.1) == date && dec(&a.2) == price) {
                                    push("wrong_vest", format!("BUY dated {date} at {price}; admissible: {:?}", rec.admissible.iter().map(|a| (day(base, a.1), a.2.clone())).collect::<Vec<_>>()));
                                }
                            }
                        }
                    }
                }
                // two deposits on one day, of two symbols: each is looked up on its own (nothing carries over from one row to the next)
                if bi == 0 && sym_case == "upper" {
                    let row = |s: &str, q: &str| json!({"Date": us(dep), "Action": "Stock Plan Activity", "Symbol": s, "Description": "RS", "Quantity": q, "Price": "", "Fees & Comm": "", "Amount": ""});
                    let rows = if case_no % 2 == 0 { vec![row(&rec.sym, "10"), row(&rec.sym2, "7")] } else { vec![row(&rec.sym2, "7"), row(&rec.sym, "10")] };
                    let tx2 = json!({"BrokerageTransactions": rows}).to_string();
                    let inp2 = format!("awards: {awards}\ntransactions: {tx2}");
                    // (an RSU row priced from another row's look-up is also a row the converter did not keep as it was: C18)
                    let mut push2 = |kind: &str, detail: String| for pr in ["C19", "C18"] {
                        fs2.push(Finding { prop: pr.into(), kind: kind.into(), case: case_no, detail: detail.clone(), input: inp2.clone(), data: json!({"admissible": rec.admissible, "admissible2": rec.admissible2}) });
                    };
                    c.inc("executions");
                    c.inc("two_symbol_lookups");
                    match convert(&tx2, Some(awards.clone())) {
                        Err(p) => push2("panic", format!("converter panicked: {p}")),
                        Ok(Err(e)) => {
                            let missing: Vec<&String> = [(&rec.sym, &rec.admissible), (&rec.sym2, &rec.admissible2)].iter().filter(|x| x.1.is_empty()).map(|x| x.0).collect();
                            if missing.is_empty() { push2("vest_not_found", format!("both symbols have a vest entry within seven days, yet conversion failed: {e}")); }
                            else if !(missing.iter().any(|m| e.contains(m.as_str())) && e.contains(&dep.to_string())) { push2("error_text", format!("the failure does not name a symbol without a vest entry ({missing:?}) and the date: {e}")); }
                        }
                        Ok(Ok(o)) => {
                            let txs = parse_file(&o.cgt_content).unwrap_or_default();
                            for (s_, adm) in [(&rec.sym, &rec.admissible), (&rec.sym2, &rec.admissible2)] {
                                let buy = txs.iter().find_map(|t| match &t.operation { Operation::Buy { price, .. } if t.ticker == *s_ => Some((t.date, price.amount)), _ => None });
                                match buy {
                                    None => push2("no_buy", format!("conversion succeeded without a BUY line for {s_}")),
                                    Some((date, price)) => {
                                        if adm.is_empty() { push2("invented_cost", format!("{s_} has no awards entry within seven days before the deposit, yet a BUY dated {date} at {price} was produced")); }
                                        else if !adm.iter().any(|a| day(base, a.1) == date && dec(&a.2) == price) {
                                            push2("wrong_vest", format!("{s_}: BUY dated {date} at {price}; admissible: {:?}", adm.iter().map(|a| (day(base, a.1), a.2.clone())).collect::<Vec<_>>()));
                                        }
                                    }
                                }
                            }
                        }
                    }
                }
                // the RSU is dated at its VEST date, which may lie days before the deposit row: rows of other kinds dated inside
                // that lag (a purchase the day before the deposit, a dividend two days before) must still come out in
                // chronological order, whatever the order of the export's rows
                if bi == 0 && sym_case == "upper" && !rec.admissible.is_empty() {
                    let dep_row = json!({"Date": us(dep), "Action": "Stock Plan Activity", "Symbol": rec.sym, "Description": "RS", "Quantity": "10", "Price": "", "Fees & Comm": "", "Amount": ""});
                    let buy_row = json!({"Date": us(dep - chrono::Duration::days(1)), "Action": "Buy", "Symbol": "ZZZ", "Description": "Z", "Quantity": "3", "Price": "$4.00", "Fees & Comm": "", "Amount": "-$12.00"});
                    let div_row = json!({"Date": us(dep - chrono::Duration::days(2)), "Action": "Cash Dividend", "Symbol": "ZZZ", "Description": "Z", "Quantity": "", "Price": "", "Fees & Comm": "", "Amount": "$2.00"});
                    let rows = match case_no % 3 { 0 => vec![dep_row, buy_row, div_row], 1 => vec![buy_row, dep_row, div_row], _ => vec![div_row, buy_row, dep_row] };
                    let tx3 = json!({"BrokerageTransactions": rows}).to_string();
                    let inp3 = format!("awards: {awards}\ntransactions: {tx3}");
                    c.inc("executions");
                    c.inc("rsu_lag_exports");
                    if let Ok(Ok(o)) = convert(&tx3, Some(awards.clone())) {
                        match parse_file(&o.cgt_content) {
                            Err(e) => fs2.push(Finding { prop: "C18".into(), kind: "output_rejected".into(), case: case_no, detail: format!("converter output does not parse: {e}"), input: inp3.clone(), data: json!({}) }),
                            Ok(txs) => {
                                if txs.windows(2).any(|w| w[0].date > w[1].date) {
                                    fs2.push(Finding { prop: "C18".into(), kind: "not_chronological".into(), case: case_no, detail: format!("output lines are not in chronological order (an RSU dated at its vest date next to rows dated between vest and deposit): {:?}", txs.iter().map(|t| t.date.to_string()).collect::<Vec<_>>()), input: inp3.clone(), data: json!({}) });
                                }
                                let buys = txs.iter().filter(|t| matches!(t.operation, Operation::Buy { .. })).count();
                                let divs = txs.iter().filter(|t| matches!(t.operation, Operation::Dividend { .. })).count();
                                if buys != 2 || divs != 1 {
                                    fs2.push(Finding { prop: "C18".into(), kind: "rows_lost".into(), case: case_no, detail: format!("an RSU deposit, a purchase and a dividend were exported; the output has {buys} BUY and {divs} DIVIDEND lines"), input: inp3.clone(), data: json!({}) });
                                }
                            }
                        }
                    } else {
                        fs2.push(Finding { prop: "C18".into(), kind: "convertible_refused".into(), case: case_no, detail: "an export the converter accepts row by row is refused as a whole".into(), input: inp3.clone(), data: json!({}) });
                    }
                }
                // no awards file at all: must fail naming symbol and date
                if bi == 0 && sym_case == "upper" && case_no % 50 == 0 {
                    c.inc("executions");
                    match convert(&tx, None) {
                        Ok(Err(e)) => if !(e.contains(&rec.sym) && e.contains(&dep.to_string())) { push("error_text", format!("without an awards file the failure does not name symbol and date: {e}")); },
                        Ok(Ok(_)) => push("invented_cost", "RSU deposit converted without any awards file".into()),
                        Err(p) => push("panic", format!("converter panicked: {p}")),
                    }
                }
            }
        }
        fs.extend(fs2);
        (fs, c)
    });
    for (fs, c) in aresults { findings.extend(fs); cnt.merge(&c); }

    let mut w = std::io::BufWriter::new(std::fs::File::create(&out).unwrap_or_else(|e| { eprintln!("cannot write {out}: {e}"); std::process::exit(2); }));
    for f in &findings { let _ = writeln!(w, "{}", serde_json::to_string(f).unwrap_or_default()); }
    let mut sample: Vec<String> = srecs.iter().filter(|r| r.rows.len() >= 3).step_by((srecs.len() / 2).max(1)).take(2).map(|r| export_json(&r.rows, base)).collect();
    if let Some(a) = arecs.get(arecs.len() / 2) { sample.push(format!("{:?}", a.entries)); }
    println!("{}", json!({"records": srecs.len() + arecs.len(), "findings": findings.len(), "counters": cnt.map, "samples": sample}));
}
