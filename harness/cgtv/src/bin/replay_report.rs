//! Replays MC_Report behaviours (REPORT lines): per-tax-year totals, exemption look-up,
//! report identities (C04) and single-year slices (C07) on the real calculator.
//!
//! usage: replay_report --in TLC_LOG --out FINDINGS.ndjson

use cgt_core::calculator::calculate;
use cgt_core::{Operation, TaxReport, Transaction};
use cgtv::ledger::*;
use cgtv::rat::{Rat, tol, tol_proceeds};
use cgtv::{Counters, Finding, guarded};
use chrono::NaiveDate;
use rust_decimal::Decimal;
use serde::Deserialize;
use serde_json::json;
use std::io::Write;

#[derive(Debug, Clone, Deserialize)]
struct YearRec {
    year: u16,
    count: usize,
    gain: Rat,
    loss: Rat,
    net: Rat,
    gross: Rat,
    exempt: Rat,
    taxable: Rat,
    div_income: Rat,
    div_tax: Rat,
}

#[derive(Debug, Clone, Deserialize)]
struct RepRec {
    outcome: Rec,
    base: (i32, u32, u32),
    slot_year: Vec<u16>,
    /// divs[day][sec] = (income, tax)
    divs: Vec<Vec<(Rat, Rat)>>,
    exempt: Vec<(u16, i64)>,
    report_status: String,
    missing: Vec<u16>,
    years: Vec<YearRec>,
}

type Res = Result<Result<TaxReport, String>, String>;

fn run(txs: &[Transaction], year: Option<i32>, cfg: &cgt_core::Config) -> Res {
    let t2 = txs.to_vec();
    let c2 = cfg.clone();
    guarded(move || calculate(&t2, year, None, &c2).map_err(|e| e.to_string()))
}

/// cgt-wasm's `calculate_tax` on the DSL text of the ledger, all years and one year at a time.  (On a native target the
/// error path of the binding cannot build its JsValue and panics; only the success path is observable here.)
fn wasm_checks(txs: &[Transaction], rep: &TaxReport, years: &[u16], cnt: &mut Counters, push: &mut dyn FnMut(&str, &str, String)) {
    use std::str::FromStr;
    let Ok(emb) = cgt_core::Config::embedded() else { return };
    if years.iter().any(|y| emb.get_exemption(*y).is_err()) { return; }
    // the embedded exemptions are thousands of pounds: trade a thousand times the quantities so that gains and losses
    // straddle them (a year can then have a gain above the exemption next to a loss)
    let big: Vec<Transaction> = txs.iter().cloned().map(|mut t| {
        match &mut t.operation {
            Operation::Buy { amount, .. } | Operation::Sell { amount, .. } => { *amount *= Decimal::from(1000); }
            _ => {}
        }
        t
    }).collect();
    let b2 = big.clone();
    let e2 = emb.clone();
    let Ok(Ok(rep_big)) = guarded(move || calculate(&b2, None, None, &e2).map_err(|e| e.to_string())) else { return };
    let rep = &rep_big;
    let txs = &big[..];
    if rep.tax_years.iter().any(|y| y.net_gain > y.exempt_amount && y.total_loss > Decimal::ZERO) { cnt.inc("wasm_years_taxable_with_loss"); }
    let dsl = to_dsl(txs);
    let call = |y: Option<i32>| -> Option<serde_json::Value> {
        let d = dsl.clone();
        guarded(move || cgt_wasm::calculate_tax(&d, y).map_err(|_| ())).ok().and_then(|r| r.ok()).and_then(|s| serde_json::from_str(&s).ok())
    };
    let dec = |v: &serde_json::Value| v.as_str().and_then(|s| Decimal::from_str(s).ok());
    cnt.inc("wasm_reports");
    cnt.inc("executions");
    let Some(all) = call(None) else { push("C17", "wasm_failed", "cgt-wasm calculate_tax fails on a ledger the library reports on".into()); return };
    let wy = all["tax_years"].as_array().cloned().unwrap_or_default();
    if wy.len() != rep.tax_years.len() { push("C17", "wasm_years", format!("cgt-wasm lists {} tax years, the library {}", wy.len(), rep.tax_years.len())); return; }
    for (w, y) in wy.iter().zip(&rep.tax_years) {
        let exemption = emb.get_exemption(y.period.start_year()).unwrap_or_default();
        let gross: Decimal = y.disposals.iter().map(|d| d.gross_proceeds).sum();
        let cost: Decimal = y.disposals.iter().flat_map(|d| d.matches.iter()).map(|m| m.allowable_cost).sum();
        let taxable = (y.net_gain - exemption).max(Decimal::ZERO);
        let mut bad = Vec::new();
        for (name, want) in [("total_gain", y.total_gain), ("total_loss", y.total_loss), ("net_gain", y.net_gain), ("total_proceeds", gross), ("total_cost", cost), ("exemption", exemption), ("taxable_gain", taxable)] {
            if dec(&w[name]) != Some(want) { bad.push(format!("{name} {} expected {want}", w[name])); }
        }
        if w["year"].as_u64() != Some(u64::from(y.period.start_year())) { bad.push(format!("year {} expected {}", w["year"], y.period.start_year())); }
        let wd = serde_json::to_value(&y.disposals).unwrap_or(json!(null));
        if cgtv::canon_numbers(&w["disposals"]) != cgtv::canon_numbers(&wd) { bad.push("disposals differ from the library's".into()); }
        if !bad.is_empty() {
            push("C17", "wasm_figures", format!("cgt-wasm, tax year {}: {}", y.period.start_year(), bad.join("; ")));
            push("C04", "wasm_figures", format!("cgt-wasm, tax year {}: {}", y.period.start_year(), bad.join("; ")));
        }
        // one year at a time: exactly that year's entry
        cnt.inc("executions");
        match call(Some(i32::from(y.period.start_year()))) {
            None => push("C07", "wasm_slice", format!("cgt-wasm calculate_tax(year = {}) fails", y.period.start_year())),
            Some(one) => {
                let oy = one["tax_years"].as_array().cloned().unwrap_or_default();
                if oy.len() != 1 || oy[0] != *w || one["holdings"] != all["holdings"] {
                    push("C07", "wasm_slice", format!("cgt-wasm calculate_tax(year = {}) is not the all-years entry: {} vs {}", y.period.start_year(), serde_json::to_string(&oy).unwrap_or_default().chars().take(300).collect::<String>(), w.to_string().chars().take(300).collect::<String>()));
                }
            }
        }
    }
    let wh = serde_json::to_value(&rep.holdings).unwrap_or(json!(null));
    if cgtv::canon_numbers(&all["holdings"]) != cgtv::canon_numbers(&wh) { push("C17", "wasm_figures", "cgt-wasm holdings differ from the library's".into()); }
}

fn main() {
    let v: Vec<String> = std::env::args().collect();
    let mut input = String::new();
    let mut out = String::new();
    let mut i = 1;
    while i < v.len() {
        match v[i].as_str() {
            "--in" => { input = v[i + 1].clone(); i += 1; }
            "--out" => { out = v[i + 1].clone(); i += 1; }
            _ => {}
        }
        i += 1;
    }
    cgtv::silence_panics();
    let lines = cgtv::tlc::tagged_lines(&input, "REPORT").unwrap_or_else(|e| {
        eprintln!("cannot read {input}: {e}");
        std::process::exit(2);
    });
    let recs: Vec<RepRec> = cgtv::par::par_map(&lines, cgtv::par::threads(), |i, l| match serde_json::from_str::<RepRec>(l) {
        Ok(r) => r,
        Err(e) => {
            eprintln!("bad REPORT line {i}: {e}: {}", &l[..l.len().min(400)]);
            std::process::exit(2);
        }
    });
    drop(lines);
    let results = cgtv::par::par_map(&recs, cgtv::par::threads(), |case_no, rr| {
        let mut cnt = Counters::default();
        let mut findings: Vec<Finding> = Vec::new();
        let rec = &rr.outcome;
        let Some(base) = NaiveDate::from_ymd_opt(rr.base.0, rr.base.1, rr.base.2) else { return (findings, cnt) };
        // odd cases: every cell as two fills, securities interleaved inside the day (a day's sales of one
        // security are then separated by another security's sale)
        let r = if case_no % 2 == 1 { Render { base, order: Order::Interleaved, fills: Fills::Halves, lower: false, dividends: false, only: None } }
                else { Render { base, order: Order::Shuffled(case_no as u64), fills: Fills::One, lower: false, dividends: false, only: None } };
        let mut txs = render(rec, &r);
        for (d, per_sec) in rr.divs.iter().enumerate() {
            for (si, (inc, tax)) in per_sec.iter().enumerate() {
                if inc.is_zero() && tax.is_zero() { continue; }
                txs.insert((d * 7 + si) % (txs.len() + 1), Transaction {
                    date: date_of(rec, base, d + 1),
                    ticker: rec.secs[si].clone(),
                    operation: Operation::Dividend { total_value: gbp(*inc), tax_paid: gbp(*tax) },
                });
            }
        }
        let mut cfg = cgt_core::Config::default();
        for (y, a) in &rr.exempt { cfg.exemptions.insert(*y, Decimal::from(*a)); }
        let input_text = to_dsl(&txs);
        let mut push = |prop: &str, kind: &str, detail: String| {
            findings.push(Finding { prop: prop.into(), kind: kind.into(), case: case_no, detail, input: input_text.clone(), data: json!({"exempt": rr.exempt}) });
        };
        cnt.inc("cases");
        let res = run(&txs, None, &cfg);
        cnt.inc("executions");
        match (&res, rr.report_status.as_str()) {
            (Err(p), _) => push("C15", "panic", format!("calculate panicked: {p}")),
            (Ok(Err(_)), "error") => { cnt.inc("uncovered"); }
            (Ok(Ok(_)), "error") => push("C05", "uncovered_accepted", "uncovered ledger accepted".into()),
            (Ok(Err(msg)), "missing_exemption") => {
                cnt.inc("missing_exemption_refused");
                if !rr.missing.iter().any(|y| msg.contains(&y.to_string())) {
                    push("C04", "missing_exemption_message", format!("error does not name the unconfigured year {:?}: {msg}", rr.missing));
                }
                // C07: the report of a CONFIGURED year is still that year's slice of the full history -- another
                // year lying outside the exemption table is no obstacle to it
                for ey in rr.years.iter().filter(|e| !rr.missing.contains(&e.year)) {
                    cnt.inc("executions");
                    cnt.inc("slices_next_to_unconfigured_year");
                    match run(&txs, Some(i32::from(ey.year)), &cfg) {
                        Err(p) => push("C15", "panic", format!("calculate panicked: {p}")),
                        Ok(Err(m2)) => push("C07", "slice_refused", format!("--year {} refused because another year of the history ({:?}) has no configured exemption: {m2}", ey.year, rr.missing)),
                        Ok(Ok(r1)) => {
                            let y = r1.tax_years.first();
                            let ok = r1.tax_years.len() == 1 && y.map(|y| y.period.start_year() == ey.year && y.disposals.len() == ey.count
                                && ey.gain.close_to(y.total_gain, tol_proceeds()) && ey.loss.close_to(y.total_loss, tol_proceeds()) && ey.net.close_to(y.net_gain, tol_proceeds())).unwrap_or(false);
                            if !ok { push("C07", "slice_differs", format!("--year {}: {:?}; expected {} disposals, gain {} loss {}", ey.year, y, ey.count, ey.gain.show(), ey.loss.show())); }
                        }
                    }
                }
            }
            (Ok(Ok(rep)), "missing_exemption") => {
                let shown: Vec<String> = rep.tax_years.iter().map(|y| format!("{}: exempt {}", y.period.start_year(), y.exempt_amount)).collect();
                push("C04", "missing_exemption_accepted", format!("tax year {:?} has no configured exemption, yet a report was produced ({})", rr.missing, shown.join(", ")));
                // C07: every disposal is reported in its tax year -- here the disposals of the unconfigured year are in no year at all
                let listed: Vec<u16> = rep.tax_years.iter().map(|y| y.period.start_year()).collect();
                let dropped: Vec<u16> = rr.years.iter().filter(|e| e.count > 0 && !listed.contains(&e.year)).map(|e| e.year).collect();
                if !dropped.is_empty() {
                    push("C07", "year_dropped", format!("the all-years report lists the tax years {:?}; the disposals of {:?} are reported in no year", listed, dropped));
                }
            }
            (Ok(Err(msg)), _) => push("C05", "covered_refused", format!("covered ledger refused: {msg}")),
            (Ok(Ok(rep)), _) => {
                cnt.inc("reports");
                if rr.years.len() >= 2 { cnt.inc("multi_year_reports"); }
                // ---- C07: years ascending, exactly the expected years
                let got: Vec<u16> = rep.tax_years.iter().map(|y| y.period.start_year()).collect();
                let want: Vec<u16> = rr.years.iter().map(|y| y.year).collect();
                if got != want {
                    push("C07", "year_list", format!("tax years listed {:?}, expected {:?} (ascending, one per year with a disposal)", got, want));
                }
                let mut seen_disp = std::collections::HashSet::new();
                for y in &rep.tax_years {
                    for d in &y.disposals {
                        if !seen_disp.insert((d.ticker.clone(), d.date)) {
                            push("C04", "duplicate_disposal", format!("{} on {} is reported as more than one disposal", d.ticker, d.date));
                        }
                    }
                }
                for ey in &rr.years {
                    let Some(y) = rep.tax_years.iter().find(|y| y.period.start_year() == ey.year) else { continue };
                    let mut bad = Vec::new();
                    if y.disposals.len() != ey.count || y.disposal_count() != ey.count { bad.push(format!("disposal count {} expected {}", y.disposal_count(), ey.count)); }
                    if !ey.gain.close_to(y.total_gain, tol_proceeds()) { bad.push(format!("total gain {} expected {}", y.total_gain, ey.gain.show())); }
                    if !ey.loss.close_to(y.total_loss, tol_proceeds()) { bad.push(format!("total loss {} expected {}", y.total_loss, ey.loss.show())); }
                    if !ey.net.close_to(y.net_gain, tol_proceeds()) { bad.push(format!("net gain {} expected {}", y.net_gain, ey.net.show())); }
                    if !ey.gross.close_to(y.gross_proceeds(), tol_proceeds()) { bad.push(format!("gross proceeds {} expected {}", y.gross_proceeds(), ey.gross.show())); }
                    if !ey.exempt.close_to(y.exempt_amount, tol()) { bad.push(format!("exemption {} expected {}", y.exempt_amount, ey.exempt.show())); }
                    if !ey.taxable.close_to(y.taxable_gain(y.exempt_amount), tol_proceeds()) { bad.push(format!("taxable gain {} expected {}", y.taxable_gain(y.exempt_amount), ey.taxable.show())); }
                    if !ey.div_income.close_to(y.dividend_income, tol()) { bad.push(format!("dividend income {} expected {}", y.dividend_income, ey.div_income.show())); }
                    if !ey.div_tax.close_to(y.dividend_tax_paid, tol()) { bad.push(format!("dividend tax {} expected {}", y.dividend_tax_paid, ey.div_tax.show())); }
                    // identities on the implementation's own figures
                    let mut g = Decimal::ZERO;
                    let mut l = Decimal::ZERO;
                    for d in &y.disposals {
                        let q: Decimal = d.matches.iter().map(|m| m.quantity).sum();
                        let gains: Decimal = d.matches.iter().map(|m| m.gain_or_loss).sum();
                        let cost: Decimal = d.matches.iter().map(|m| m.allowable_cost).sum();
                        if (q - d.quantity).abs() > tol() { bad.push(format!("{} {}: quantity {} != sum of legs {}", d.ticker, d.date, d.quantity, q)); }
                        if (gains - (d.proceeds - cost)).abs() > tol_proceeds() { bad.push(format!("{} {}: legs' gains {} != net proceeds {} - cost {}", d.ticker, d.date, gains, d.proceeds, cost)); }
                        if d.net_gain_or_loss() != gains || d.total_allowable_cost() != cost { bad.push(format!("{} {}: helper totals disagree with legs", d.ticker, d.date)); }
                        if d.proceeds > d.gross_proceeds + tol_proceeds() { bad.push(format!("{} {}: net proceeds above gross", d.ticker, d.date)); }
                        let si = rec.sec_index(&d.ticker);
                        let di = (1..=rec.n()).find(|k| date_of(rec, base, *k) == d.date);
                        if let (Some(si), Some(di)) = (si, di) {
                            let c = &rec.ledger[si][di - 1];
                            let gross = c.sq().mul(c.sp());
                            if !gross.close_to(d.gross_proceeds, tol_proceeds()) { bad.push(format!("{} {}: gross proceeds {} expected {}", d.ticker, d.date, d.gross_proceeds, gross.show())); }
                            if !gross.sub(c.sf()).close_to(d.proceeds, tol_proceeds()) { bad.push(format!("{} {}: net proceeds {} expected {}", d.ticker, d.date, d.proceeds, gross.sub(c.sf()).show())); }
                            if rr.slot_year[di - 1] != ey.year { bad.push(format!("{} {} listed under {}", d.ticker, d.date, ey.year)); }
                        } else {
                            bad.push(format!("unexpected disposal {} {}", d.ticker, d.date));
                        }
                        if gains > Decimal::ZERO { g += gains; } else { l -= gains; }
                    }
                    if (g - y.total_gain).abs() > tol_proceeds() || (l - y.total_loss).abs() > tol_proceeds() || (y.net_gain - (y.total_gain - y.total_loss)).abs() > tol_proceeds() {
                        bad.push(format!("year totals {}/{}/{} are not the netting of its disposals ({g}/{l})", y.total_gain, y.total_loss, y.net_gain));
                    }
                    if !bad.is_empty() {
                        push("C04", "year_totals", format!("tax year {}: {}", ey.year, bad.join("; ")));
                    }
                }
                // ---- the browser front-end (cgt-wasm, compiled natively): it derives total proceeds, total cost and the
                // taxable gain on its own and uses the embedded exemption table; every figure must be the library's
                if case_no % 3 == 0 {
                    wasm_checks(&txs, &rep, &want, &mut cnt, &mut push);
                }
                // ---- C07: a one-year report is the slice of the all-years report
                let mut ys: Vec<u16> = want.clone();
                for extra in [want.first().map(|y| y - 1), want.last().map(|y| y + 1)].into_iter().flatten() { ys.push(extra); }
                for y in ys {
                    let one = run(&txs, Some(y as i32), &cfg);
                    cnt.inc("executions");
                    cnt.inc("slices");
                    let configured = rr.exempt.iter().any(|(k, _)| *k == y);
                    match one {
                        Err(p) => push("C15", "panic", format!("calculate(year={y}) panicked: {p}")),
                        Ok(Err(msg)) => {
                            if configured { push("C07", "slice_refused", format!("--year {y} refused although the all-years report exists: {msg}")); }
                        }
                        Ok(Ok(r1)) => {
                            if !configured { push("C04", "missing_exemption_accepted", format!("--year {y}: no configured exemption, yet a report was produced (exempt {})", r1.tax_years.first().map(|t| t.exempt_amount).unwrap_or_default())); continue; }
                            if r1.holdings != rep.holdings { push("C07", "slice_holdings", format!("--year {y}: holdings differ from the all-years report")); }
                            if r1.tax_years.len() != 1 || r1.tax_years[0].period.start_year() != y {
                                push("C07", "slice_shape", format!("--year {y}: {} tax years returned", r1.tax_years.len()));
                                continue;
                            }
                            // C04: the single-year view carries the year's dividend totals of the specification as well
                            if let Some(ey) = rr.years.iter().find(|e| e.year == y) {
                                let t = &r1.tax_years[0];
                                if !ey.div_income.close_to(t.dividend_income, tol()) || !ey.div_tax.close_to(t.dividend_tax_paid, tol()) {
                                    push("C04", "year_dividends", format!("--year {y}: dividend income / tax {} / {}, expected {} / {}", t.dividend_income, t.dividend_tax_paid, ey.div_income.show(), ey.div_tax.show()));
                                }
                            }
                            match rep.tax_years.iter().find(|t| t.period.start_year() == y) {
                                Some(full) => {
                                    if *full != r1.tax_years[0] {
                                        push("C07", "slice_differs", format!("--year {y}: summary differs from the all-years entry: {:?} vs {:?}", r1.tax_years[0], full));
                                    }
                                }
                                None => {
                                    let t = &r1.tax_years[0];
                                    if !t.disposals.is_empty() || !t.total_gain.is_zero() || !t.total_loss.is_zero() {
                                        push("C07", "slice_extra", format!("--year {y}: disposals reported that the all-years report does not list"));
                                    }
                                }
                            }
                        }
                    }
                }
            }
        }
        (findings, cnt)
    });
    let mut cnt = Counters::default();
    let mut w = std::io::BufWriter::new(std::fs::File::create(&out).unwrap_or_else(|e| {
        eprintln!("cannot write {out}: {e}");
        std::process::exit(2);
    }));
    let mut nf = 0usize;
    for (fs, c) in &results {
        cnt.merge(c);
        for f in fs {
            nf += 1;
            let _ = writeln!(w, "{}", serde_json::to_string(f).unwrap_or_default());
        }
    }
    let sample: Vec<String> = recs.iter().filter(|r| r.years.len() >= 2).take(2).map(|rr| {
        let base = NaiveDate::from_ymd_opt(rr.base.0, rr.base.1, rr.base.2).unwrap_or_default();
        to_dsl(&render(&rr.outcome, &Render { base, order: Order::Canonical, fills: Fills::One, lower: false, dividends: false, only: None }))
    }).collect();
    println!("{}", json!({"records": recs.len(), "findings": nf, "counters": cnt.map, "samples": sample}));
}
