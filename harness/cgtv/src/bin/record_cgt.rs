//! Records traces of the REAL matcher (verif hooks) on seeded random multi-security ledgers that are
//! larger than the exhaustive models, projected per security, for validation by CgtTrace.tla.
//!
//! usage: record_cgt --out TRACE.ndjson --ledgers K --seed S [--corrupt none|leg|drop]

use cgt_core::calculator::calculate;
use cgt_core::verif::Event;
use cgtv::ledger::*;
use cgtv::rat::{Rat, snap};
use cgtv::{Counters, guarded};
use chrono::NaiveDate;
use rand::rngs::StdRng;
use rand::seq::SliceRandom;
use rand::{Rng, SeedableRng};
use rust_decimal::Decimal;
use serde_json::json;
use std::collections::HashMap;
use std::io::Write;

const DAYS: [i64; 10] = [0, 1, 2, 15, 30, 31, 32, 45, 61, 62];
const SECS: [&str; 3] = ["AAA", "BBB", "CCC"];
const BP: [i64; 10] = [10, 12, 15, 9, 14, 11, 13, 16, 8, 17];
const SP: [i64; 10] = [20, 8, 17, 13, 19, 7, 21, 12, 18, 9];
const MAX_DEN: i128 = 2000;
const MAX_NUM: i128 = 400_000;

fn r(n: i64) -> Rat { Rat::int(n) }

fn gen_ledger(rng: &mut StdRng) -> Rec {
    let n = DAYS.len();
    let mut ledger: Vec<Vec<Cell>> = Vec::new();
    for (si, _) in SECS.iter().enumerate() {
        let mut held: i64 = 0; // in current units x2 (to allow halves after an unsplit)
        let mut cells = Vec::new();
        let ncost = rng.gen_range(0..=1);
        let split_day: Option<usize> = if rng.gen_bool(0.45) { Some(rng.gen_range(1..n - 1)) } else { None };
        let event_days: Vec<usize> = (0..ncost).map(|_| rng.gen_range(2..n)).collect();
        for d in 0..n {
            let mut bq = 0i64;
            let mut sq = 0i64;
            if rng.gen_bool(0.5) { bq = *[1, 2, 2, 4].choose(rng).unwrap_or(&1); }
            let avail = held / 2 + bq;
            if avail > 0 && rng.gen_bool(0.55) {
                sq = rng.gen_range(1..=avail.min(4));
                // a tenth of the sales exceed the holding: the run must then fail here
                if rng.gen_bool(0.012) { sq = avail + 1; }
            }
            let split = if Some(d) == split_day { *[Rat { n: 2, d: 1 }, Rat { n: 1, d: 2 }, Rat { n: 2, d: 1 }].choose(rng).unwrap_or(&Rat::ONE) } else { Rat::ONE };
            let (mut ac, mut cr, mut crf) = (Rat::ZERO, Rat::ZERO, Rat::ZERO);
            if event_days.contains(&d) {
                if rng.gen_bool(0.5) { ac = r(rng.gen_range(1..=3)); } else { cr = r(rng.gen_range(1..=2)); if rng.gen_bool(0.3) && cr.n == 2 { crf = r(1); } }
            }
            held = (held + 2 * bq - 2 * sq).max(0);
            if split != Rat::ONE { held = if split.n == 2 { held * 2 } else { held / 2 }; }
            cells.push(Cell(
                r(bq), if bq > 0 { r(BP[d] + 3 * si as i64) } else { Rat::ZERO }, if bq > 0 { r(rng.gen_range(0..=2)) } else { Rat::ZERO },
                r(sq), if sq > 0 { r(SP[d] + 2 * si as i64) } else { Rat::ZERO }, if sq > 0 { r(rng.gen_range(0..=2)) } else { Rat::ZERO },
                split, ac, cr, crf,
            ));
        }
        ledger.push(cells);
    }
    Rec { days: DAYS.to_vec(), secs: SECS.iter().map(|s| s.to_string()).collect(), timing: "end".into(), ledger, dist: vec![], status: String::new(), err: json!([]), uncovered: vec![], legs: vec![], pool: vec![], exact: false }
}

fn r2(x: Rat) -> serde_json::Value { json!([x.n as i64, x.d as i64]) }
fn sn(x: Decimal) -> Option<Rat> {
    let q = snap(x, MAX_DEN)?;
    if q.n.abs() > MAX_NUM { None } else { Some(q) }
}
fn num(e: &Event, k: &str) -> Decimal { e.nums.iter().find(|(n, _)| *n == k).map(|x| x.1).unwrap_or_default() }
fn text<'a>(e: &'a Event, k: &str) -> &'a str { e.texts.iter().find(|(n, _)| *n == k).map(|x| x.1.as_str()).unwrap_or("") }

/// events of one security, in order, as trace lines; None if some number is not representable for TLC
fn project(rec: &Rec, si: usize, base: NaiveDate, events: &[Event], failed_for: Option<&str>, aborted: bool) -> Option<Vec<serde_json::Value>> {
    let n = rec.n();
    let sec = &rec.secs[si];
    let didx: HashMap<NaiveDate, usize> = (1..=n).map(|d| (date_of(rec, base, d), d)).collect();
    let mut dist = vec![vec![Decimal::ZERO; n]; n];
    let mut out = Vec::new();
    for e in events.iter().filter(|e| &e.ticker == sec) {
        match e.kind {
            "CostEvent" => {
                let ed = *didx.get(&e.date)?;
                for (ld, delta) in &e.lots { dist[ed - 1][*didx.get(ld)? - 1] += *delta; }
            }
            "Sell" => out.push(json!({"event": "Sell", "amount": r2(sn(num(e, "amount"))?), "held": r2(sn(num(e, "held"))?)})),
            "Leg" => {
                let rule = text(e, "rule").to_string();
                let a = if rule == "Section104" { 0 } else { *didx.get(&e.other_date?)? };
                out.push(json!({"event": "Leg", "rule": rule, "a": a, "q": r2(sn(num(e, "quantity"))?), "cost": r2(sn(num(e, "cost"))?),
                                "gross": r2(sn(num(e, "gross"))?), "net": r2(sn(num(e, "net"))?)}));
            }
            "Split" => out.push(json!({"event": "Split", "factor": r2(sn(num(e, "factor"))?)})),
            "DayEnd" => out.push(json!({"event": "DayEnd", "pool_q": r2(sn(num(e, "pool_quantity"))?), "pool_c": r2(sn(num(e, "pool_cost"))?), "held": r2(sn(num(e, "held"))?)})),
            _ => {}
        }
    }
    let mut dj = Vec::new();
    for row in &dist { let mut rj = Vec::new(); for x in row { rj.push(r2(sn(*x)?)); } dj.push(rj); }
    let cells: Vec<serde_json::Value> = rec.ledger[si].iter().map(|c| json!([r2(c.0), r2(c.1), r2(c.2), r2(c.3), r2(c.4), r2(c.5), r2(c.6), r2(c.7), r2(c.8), r2(c.9)])).collect();
    let mut lines = vec![json!({"event": "Reset", "ledger": cells, "dist": dj, "sec": sec, "accepted": !aborted}), json!({"event": "Start"})];
    lines.extend(out);
    if failed_for == Some(sec.as_str()) { lines.push(json!({"event": "Fail"})); }
    else if aborted { lines.push(json!({"event": "Abort"})); }
    Some(lines)
}

fn main() {
    let v: Vec<String> = std::env::args().collect();
    let (mut out, mut k, mut seed, mut corrupt) = (String::new(), 50usize, 1u64, "none".to_string());
    let mut i = 1;
    while i < v.len() {
        match v[i].as_str() {
            "--out" => { out = v[i + 1].clone(); i += 1; }
            "--ledgers" => { k = v[i + 1].parse().unwrap_or(50); i += 1; }
            "--seed" => { seed = v[i + 1].parse().unwrap_or(1); i += 1; }
            "--corrupt" => { corrupt = v[i + 1].clone(); i += 1; }
            _ => {}
        }
        i += 1;
    }
    cgtv::silence_panics();
    let mut rng = StdRng::seed_from_u64(seed.wrapping_mul(7919).wrapping_add(17));
    let bases = base_dates();
    let cfg = full_config();
    let mut cnt = Counters::default();
    let mut all: Vec<serde_json::Value> = Vec::new();
    let mut sample = String::new();
    let mut panics = Vec::new();
    for li in 0..k {
        let rec = gen_ledger(&mut rng);
        let base = bases[li % bases.len()];
        let rd = Render { base, order: Order::Shuffled(seed * 100_003 + li as u64), fills: Fills::One, lower: false, dividends: false, only: None };
        let txs = render(&rec, &rd);
        cgt_core::verif::start();
        let t2 = txs.clone();
        let c2 = cfg.clone();
        let res = guarded(move || calculate(&t2, None, None, &c2).map(|_| ()).map_err(|e| e.to_string()));
        let events = cgt_core::verif::finish();
        cnt.inc("ledgers");
        let (failed_for, aborted): (Option<String>, bool) = match &res {
            Ok(Ok(())) => (None, false),
            Ok(Err(msg)) => {
                if msg.contains("S122") { cnt.inc("refused_s122"); continue; } // the pre-pass refused: nothing to trace
                // the failing security is the ticker of the last Sell event
                let last = events.iter().rev().find(|e| e.kind == "Sell").map(|e| e.ticker.clone());
                cnt.inc("failed_runs");
                (last, true)
            }
            Err(p) => { panics.push(format!("{p}: {}", to_dsl(&txs))); continue; }
        };
        let mut lines = Vec::new();
        let mut ok = true;
        for si in 0..rec.secs.len() {
            match project(&rec, si, base, &events, failed_for.as_deref(), aborted) {
                Some(l) => lines.push(l),
                None => { ok = false; break; }
            }
        }
        if !ok { cnt.inc("not_representable"); continue; }
        if sample.is_empty() && events.len() > 25 { sample = to_dsl(&txs); }
        for l in lines { cnt.inc("projected_traces"); cnt.add("events", l.len() as u64); all.extend(l); }
    }
    // binding self-tests: a corrupted trace must be rejected
    match corrupt.as_str() {
        "leg" => {
            if let Some(e) = all.iter_mut().find(|e| e["event"] == "Leg") {
                let q = e["q"].clone();
                e["q"] = json!([q[0].as_i64().unwrap_or(0) + 1, q[1].as_i64().unwrap_or(1)]);
            }
        }
        "drop" => {
            if let Some(p) = all.iter().position(|e| e["event"] == "DayEnd") { all.remove(p); }
        }
        "pool" => {
            if let Some(e) = all.iter_mut().filter(|e| e["event"] == "DayEnd").nth(3) {
                let c = e["pool_c"].clone();
                e["pool_c"] = json!([c[0].as_i64().unwrap_or(0) + c[1].as_i64().unwrap_or(1), c[1].as_i64().unwrap_or(1)]);
            }
        }
        _ => {}
    }
    let mut w = std::io::BufWriter::new(std::fs::File::create(&out).unwrap_or_else(|e| { eprintln!("cannot write {out}: {e}"); std::process::exit(2); }));
    for e in &all { let _ = writeln!(w, "{e}"); }
    println!("{}", json!({"records": all.len(), "findings": panics.len(), "counters": cnt.map, "samples": [sample], "panics": panics}));
}
