//! Replays MC_Calendar (DAY lines): every date 1899-12-31 .. 2101-12-31 through the code's
//! derivations of the tax year (C07).
//!
//! usage: replay_calendar --in TLC_LOG --out FINDINGS.ndjson

use cgt_core::calculator::calculate;
use cgt_core::{Currency, CurrencyAmount, Operation, TaxPeriod, Transaction};
use cgtv::{Counters, Finding, guarded};
use chrono::{Datelike, NaiveDate};
use rust_decimal::Decimal;
use serde_json::json;
use std::io::{BufRead, Write};

struct Day { n: i64, y: i32, m: u32, d: u32, ty: i32, supported: bool }

fn main() {
    let v: Vec<String> = std::env::args().collect();
    let mut input = String::new();
    let mut out = String::new();
    let mut i = 1;
    while i < v.len() {
        match v[i].as_str() {
            "--in" => { input = v[i + 1].clone(); i += 1; }
            "--out" => { out = v[i + 1].clone(); i += 1; }
            _ => {}
        }
        i += 1;
    }
    cgtv::silence_panics();
    let f = std::fs::File::open(&input).unwrap_or_else(|e| { eprintln!("cannot read {input}: {e}"); std::process::exit(2); });
    let mut days = Vec::new();
    for line in std::io::BufReader::new(f).lines().map_while(Result::ok) {
        if let Some(rest) = line.strip_prefix("<<\"DAY\", ") {
            let rest = rest.trim_end_matches(">>");
            let p: Vec<&str> = rest.split(", ").collect();
            if p.len() == 6 {
                days.push(Day {
                    n: p[0].parse().unwrap_or(0), y: p[1].parse().unwrap_or(0), m: p[2].parse().unwrap_or(0),
                    d: p[3].parse().unwrap_or(0), ty: p[4].parse().unwrap_or(0), supported: p[5] == "TRUE",
                });
            }
        }
    }
    let mut cfg = cgt_core::Config::default();
    for y in 1890u16..=2110 { cfg.exemptions.insert(y, Decimal::from(100)); }
    let gbp = |x: i64| CurrencyAmount::new(Decimal::from(x), Currency::GBP);
    let results = cgtv::par::par_map(&days, cgtv::par::threads(), |case_no, day| {
        let mut cnt = Counters::default();
        let mut findings: Vec<Finding> = Vec::new();
        let label = format!("{:04}-{:02}-{:02}", day.y, day.m, day.d);
        let mut push = |kind: &str, detail: String| {
            findings.push(Finding { prop: "C07".into(), kind: kind.into(), case: case_no, detail, input: label.clone(), data: json!({"expected_tax_year": day.ty, "supported": day.supported}) });
        };
        cnt.inc("dates");
        // the specification's calendar against chrono
        let Some(date) = NaiveDate::from_ymd_opt(day.y, day.m, day.d) else {
            push("spec_calendar", format!("specification produced a non-existent date {label}"));
            return (findings, cnt);
        };
        if date.num_days_from_ce() as i64 != day.n {
            push("spec_calendar", format!("specification day number {} but chrono says {}", day.n, date.num_days_from_ce()));
        }
        if (date.month(), date.day()) == (4, 5) || (date.month(), date.day()) == (4, 6) || (date.month(), date.day()) == (2, 29) { cnt.inc("boundary_dates"); }
        // derivation 1: TaxPeriod::from_date
        match guarded(|| TaxPeriod::from_date(date).map(|p| p.start_year()).map_err(|e| e.to_string())) {
            Err(p) => push("panic", format!("TaxPeriod::from_date panicked: {p}")),
            Ok(Ok(y)) => {
                if !day.supported { push("unsupported_year_accepted", format!("{label}: tax year {} is outside 1900..2100 but from_date returned {y}", day.ty)); }
                else if y as i32 != day.ty { push("from_date", format!("{label}: from_date says {y}, expected {}", day.ty)); }
            }
            Ok(Err(_)) => { if day.supported { push("from_date", format!("{label}: from_date refused a date in tax year {}", day.ty)); } }
        }
        // derivations 2 and 3: grouping in the all-years report, and the [6 Apr, 5 Apr] filter
        let txs = vec![
            Transaction { date, ticker: "AAA".into(), operation: Operation::Buy { amount: Decimal::ONE, price: gbp(10), fees: gbp(0) } },
            Transaction { date, ticker: "AAA".into(), operation: Operation::Sell { amount: Decimal::ONE, price: gbp(12), fees: gbp(0) } },
        ];
        let all = { let t = txs.clone(); let c = cfg.clone(); guarded(move || calculate(&t, None, None, &c).map_err(|e| e.to_string())) };
        cnt.inc("executions");
        match all {
            Err(p) => push("panic", format!("calculate panicked: {p}")),
            Ok(Ok(rep)) => {
                if !day.supported { push("unsupported_year_accepted", format!("{label}: report produced for a date outside the supported tax years")); }
                else {
                    let ys: Vec<u16> = rep.tax_years.iter().filter(|y| !y.disposals.is_empty()).map(|y| y.period.start_year()).collect();
                    if ys != vec![day.ty as u16] { push("all_years_grouping", format!("{label}: disposal listed under {:?}, expected [{}]", ys, day.ty)); }
                }
            }
            Ok(Err(_)) => { if day.supported { push("all_years_grouping", format!("{label}: refused although tax year {} is supported", day.ty)); } }
        }
        if day.supported {
            for dy in [-1i32, 0, 1] {
                let y = day.ty + dy;
                if !(1900..=2100).contains(&y) { continue; }
                let t = txs.clone(); let c = cfg.clone();
                let one = guarded(move || calculate(&t, Some(y), None, &c).map_err(|e| e.to_string()));
                cnt.inc("executions");
                match one {
                    Err(p) => push("panic", format!("calculate(year={y}) panicked: {p}")),
                    Ok(Err(e)) => push("year_filter", format!("{label}: --year {y} refused: {e}")),
                    Ok(Ok(rep)) => {
                        let n: usize = rep.tax_years.iter().map(|t| t.disposals.len()).sum();
                        if (dy == 0 && n != 1) || (dy != 0 && n != 0) {
                            push("year_filter", format!("{label}: --year {y} lists {n} disposal(s); the date belongs to tax year {}", day.ty));
                        }
                    }
                }
            }
        }
        (findings, cnt)
    });
    let mut cnt = Counters::default();
    let mut w = std::io::BufWriter::new(std::fs::File::create(&out).unwrap_or_else(|e| { eprintln!("cannot write {out}: {e}"); std::process::exit(2); }));
    let mut nf = 0usize;
    for (fs, c) in &results {
        cnt.merge(c);
        for f in fs { nf += 1; let _ = writeln!(w, "{}", serde_json::to_string(f).unwrap_or_default()); }
    }
    println!("{}", json!({"records": days.len(), "findings": nf, "counters": cnt.map, "samples": ["1900-04-05", "2024-02-29", "2024-04-05", "2024-04-06", "2101-04-05"]}));
}
