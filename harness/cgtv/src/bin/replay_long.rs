//! The invariants of Cgt.tla that need no prediction -- `LegsSumToSold`, `ClaimsWithinBought`, `ClosingHolding`
//! (C02), `CostConservedAtEnd` (C03, C11), `FailIffUncovered` with the closed form of the holding (C05) and
//! `LegOrder` on the same-day leg (C01) -- evaluated on the implementation's own report for seeded ledgers of
//! 60-140 lines of ONE security (plus a second one as a block of its own): dozens of open lots, dozens of disposals,
//! reorganisations, cost events, same-day and 30-day patterns.  No bounded model reaches this size; what the
//! models establish exactly on short ledgers is here demanded, as the laws the specification states, of histories
//! long enough to cross every per-security size threshold of the code (lot count, disposal count, legs per disposal).
//!
//! usage: replay_long --seeds N --seed S --out FINDINGS.ndjson

use cgt_core::calculator::calculate;
use cgt_core::{Currency, CurrencyAmount, MatchRule, Operation, TaxReport, Transaction};
use cgtv::ledger::{full_config, to_dsl};
use cgtv::{Counters, Finding, guarded};
use chrono::{Datelike, Duration, NaiveDate};
use rand::rngs::StdRng;
use rand::{Rng, SeedableRng};
use rust_decimal::Decimal;
use serde_json::json;
use std::collections::BTreeMap;
use std::io::Write;

fn gbp(x: i64) -> CurrencyAmount {
    CurrencyAmount::new(Decimal::new(x, 2), Currency::GBP)
}

struct Gen {
    txs: Vec<Transaction>,
    /// expected acceptance: None = covered, Some(date) = first day whose sales exceed the shares held
    uncovered: Option<NaiveDate>,
}

/// One long ledger.  Days are visited in order; at most one kind of activity per day except the deliberate same-day
/// BUY + SELL days; no trade on a reorganisation day (the split-timing question of DESIGN section 4 does not arise);
/// cost events only while shares are held and small against any lot's cost (never an s122 refusal).
fn generate(seed: u64) -> Gen {
    let mut rng = StdRng::seed_from_u64(seed.wrapping_mul(0x9E37_79B9_7F4A_7C15).wrapping_add(17));
    let start = NaiveDate::from_ymd_opt(2016 + (seed % 5) as i32, 1 + (seed % 12) as u32, 3).unwrap_or_default();
    let target = 60 + (seed % 9) as usize * 10;
    let tk = "LONG";
    let mut txs: Vec<Transaction> = Vec::new();
    let mut day = start;
    let mut held: i64 = 0; // in quarter shares
    let mut uncovered = None;
    let want_uncovered = seed % 7 == 3;
    let uncovered_at = target / 2 + (seed % 11) as usize;
    let (mut nsplit, mut nret) = (0, 0);
    // lower bound of the cost of a quarter share in any open lot, in 1/1000 penny: capital returns stay far below it
    let mut minc: i64 = i64::MAX / 4;
    let q4 = |q: i64| Decimal::new(q * 25, 2);
    while txs.len() < target {
        day += Duration::days(match rng.gen_range(0..10) { 0..=3 => 1, 4..=6 => rng.gen_range(2..9), 7 | 8 => rng.gen_range(9..29), _ => rng.gen_range(29..40) });
        let r = rng.gen_range(0..100);
        if held == 0 || r < 40 {
            let q = rng.gen_range(1..=40);
            let p = rng.gen_range(500..2500);
            minc = minc.min(p * 250);
            txs.push(Transaction { date: day, ticker: tk.into(), operation: Operation::Buy { amount: q4(q), price: gbp(p), fees: gbp(rng.gen_range(0..300)) } });
            held += q;
        } else if r < 70 {
            let mut q = rng.gen_range(1..=held.min(60));
            if want_uncovered && uncovered.is_none() && txs.len() >= uncovered_at { q = held + rng.gen_range(1..5); }
            txs.push(Transaction { date: day, ticker: tk.into(), operation: Operation::Sell { amount: q4(q), price: gbp(rng.gen_range(500..3000)), fees: gbp(rng.gen_range(0..200)) } });
            if q > held { uncovered = uncovered.or(Some(day)); held = 0; } else { held -= q; }
        } else if r < 80 {
            // the same day: a sale and a purchase (Same Day rule; the purchase may be smaller or larger than the sale)
            let s = rng.gen_range(1..=held.min(30));
            let b = rng.gen_range(1..=40);
            let sell = Transaction { date: day, ticker: tk.into(), operation: Operation::Sell { amount: q4(s), price: gbp(rng.gen_range(500..3000)), fees: gbp(50) } };
            let p = rng.gen_range(500..2500);
            minc = minc.min(p * 250);
            let buy = Transaction { date: day, ticker: tk.into(), operation: Operation::Buy { amount: q4(b), price: gbp(p), fees: gbp(rng.gen_range(0..100)) } };
            if rng.gen_bool(0.5) { txs.push(sell); txs.push(buy); } else { txs.push(buy); txs.push(sell); }
            held += b - s;
        } else if r < 86 && nsplit < 3 {
            let (up, k) = (rng.gen_bool(0.6), if rng.gen_bool(0.7) { 2 } else { 4 });
            if up { held *= k; minc /= k; txs.push(Transaction { date: day, ticker: tk.into(), operation: Operation::Split { ratio: Decimal::from(k) } }); }
            else if held % k == 0 { held /= k; minc *= k; txs.push(Transaction { date: day, ticker: tk.into(), operation: Operation::Unsplit { ratio: Decimal::from(k) } }); }
            nsplit += 1;
        } else if r < 92 {
            txs.push(Transaction { date: day, ticker: tk.into(), operation: Operation::Accumulation { amount: q4(held), total_value: gbp(rng.gen_range(100..2000)), tax_paid: gbp(0) } });
        } else if r < 96 && nret < 3 {
            // at most 3 returns, each at most a quarter of the cheapest open lot's cost per share
            let v = (held * minc / 4000).min(rng.gen_range(50..400));
            if v < 10 { continue; }
            minc -= v * 1000 / held + 1;
            let f = rng.gen_range(0..v.min(20));
            txs.push(Transaction { date: day, ticker: tk.into(), operation: Operation::CapReturn { amount: q4(held), total_value: gbp(v), fees: gbp(f) } });
            nret += 1;
        } else {
            txs.push(Transaction { date: day, ticker: tk.into(), operation: Operation::Dividend { total_value: gbp(rng.gen_range(100..900)), tax_paid: gbp(0) } });
        }
    }
    // file order: not chronological -- the odd-numbered lines first, then the even-numbered ones; a second security as a block
    let mut file: Vec<Transaction> = txs.iter().step_by(2).cloned().collect();
    file.extend(txs.iter().skip(1).step_by(2).cloned());
    for k in 0..(3 + seed % 5) as i64 {
        file.push(Transaction { date: start + Duration::days(11 * k + 1), ticker: "SIDE".into(), operation: Operation::Buy { amount: Decimal::from(3), price: gbp(1000), fees: gbp(0) } });
    }
    file.push(Transaction { date: start + Duration::days(70), ticker: "SIDE".into(), operation: Operation::Sell { amount: Decimal::from(4), price: gbp(1200), fees: gbp(100) } });
    Gen { txs: file, uncovered }
}

fn main() {
    let v: Vec<String> = std::env::args().collect();
    let (mut out, mut seeds, mut seed0) = (String::new(), 40u64, 1u64);
    let mut i = 1;
    while i < v.len() {
        match v[i].as_str() {
            "--out" => { out = v[i + 1].clone(); i += 1; }
            "--seeds" => { seeds = v[i + 1].parse().unwrap_or(40); i += 1; }
            "--seed" => { seed0 = v[i + 1].parse().unwrap_or(1); i += 1; }
            _ => {}
        }
        i += 1;
    }
    cgtv::silence_panics();
    let config = full_config();
    let cases: Vec<u64> = (0..seeds).map(|k| seed0 * 100_003 + k).collect();
    let results = cgtv::par::par_map(&cases, cgtv::par::threads(), |case_no, seed| {
        let mut cnt = Counters::default();
        let mut findings: Vec<Finding> = Vec::new();
        let g = generate(*seed);
        let txs = g.txs.clone();
        cnt.inc("cases");
        cnt.add("lines", txs.len() as u64);
        if txs.iter().any(|t| matches!(t.operation, Operation::Split { .. } | Operation::Unsplit { .. })) { cnt.inc("with_splits"); }
        if txs.iter().any(|t| matches!(t.operation, Operation::CapReturn { .. } | Operation::Accumulation { .. })) { cnt.inc("with_events"); }
        cnt.add("purchase_days", txs.iter().filter(|t| t.ticker == "LONG" && matches!(t.operation, Operation::Buy { .. })).count() as u64);
        let input = to_dsl(&txs);
        let mut push = |prop: &str, kind: &str, detail: String| findings.push(Finding { prop: prop.into(), kind: kind.into(), case: case_no, detail, input: input.clone(), data: json!({"seed": seed, "long": true}) });
        let cfg = &config;
        let t2 = txs.clone();
        let res: Result<Result<TaxReport, String>, String> = guarded(move || calculate(&t2, None, None, cfg).map_err(|e| e.to_string()));
        cnt.inc("executions");
        match (&res, g.uncovered) {
            (Err(p), _) => push("C15", "panic", format!("calculate panicked on a long ledger: {p}")),
            (Ok(Err(msg)), Some(d)) => {
                cnt.inc("uncovered");
                let ds = d.format("%Y-%m-%d").to_string();
                if !(msg.contains("LONG") && msg.contains(&ds)) && !msg.contains("S122") { push("C05", "wrong_error", format!("uncovered sale of LONG on {ds}: the error names something else: {msg}")); }
            }
            (Ok(Err(msg)), None) => {
                if msg.contains("S122") { cnt.inc("s122_refused_skipped"); } else { push("C05", "covered_refused", format!("every sale of this long ledger is covered by shares held, yet it is refused: {msg}")); }
            }
            (Ok(Ok(_)), Some(d)) => push("C05", "uncovered_accepted", format!("the sales of LONG on {d} exceed the shares held, yet a report was produced")),
            (Ok(Ok(report)), None) => {
                cnt.inc("covered");
                check_laws(&txs, report, &mut cnt, &mut push);
            }
        }
        (findings, cnt)
    });
    let mut cnt = Counters::default();
    let mut w = std::io::BufWriter::new(std::fs::File::create(&out).unwrap_or_else(|e| {
        eprintln!("cannot write {out}: {e}");
        std::process::exit(2);
    }));
    let mut nf = 0usize;
    for (fs, c) in &results {
        cnt.merge(c);
        for f in fs {
            nf += 1;
            let _ = writeln!(w, "{}", serde_json::to_string(f).unwrap_or_default());
        }
    }
    let sample: Vec<String> = cases.iter().take(1).map(|s| to_dsl(&generate(*s).txs).lines().take(12).collect::<Vec<_>>().join("\n")).collect();
    println!("{}", json!({"records": cases.len(), "cases": cases.len(), "findings": nf, "observations": 0, "counters": cnt.map, "samples": sample}));
}

/// The specification's laws on the implementation's own figures (accepted ledger).
fn check_laws(txs: &[Transaction], report: &TaxReport, cnt: &mut Counters, push: &mut dyn FnMut(&str, &str, String)) {
    let tol = Decimal::new(1, 9);
    // ---- Report.tla on years with dozens of disposals: a disposal's proceeds from the day's SELL lines, its result from its
    // legs; TotalGain / TotalLoss / NetGain of the year from its disposals; every disposal in the year TaxYearOf puts it in,
    // and in one year only (C04, C07)
    {
        let tolp = Decimal::new(1, 8);
        let mut listed: std::collections::BTreeSet<(String, NaiveDate)> = std::collections::BTreeSet::new();
        for y in &report.tax_years {
            let (mut g, mut l) = (Decimal::ZERO, Decimal::ZERO);
            if y.disposals.len() >= 12 { cnt.inc("years_with_12_or_more_disposals"); }
            for d in &y.disposals {
                let sells: Vec<&Transaction> = txs.iter().filter(|t| t.ticker == d.ticker && t.date == d.date && matches!(t.operation, Operation::Sell { .. })).collect();
                let (mut gross, mut fees) = (Decimal::ZERO, Decimal::ZERO);
                for t in &sells { if let Operation::Sell { amount, price, fees: f } = &t.operation { gross += *amount * price.amount; fees += f.amount; } }
                if (d.gross_proceeds - gross).abs() > tolp { push("C04", "disposal_totals", format!("{} {}: gross proceeds {} where the day's sales are worth {gross}", d.ticker, d.date, d.gross_proceeds)); }
                if (d.proceeds - (gross - fees)).abs() > tolp { push("C04", "disposal_totals", format!("{} {}: net proceeds {} where gross - fees = {}", d.ticker, d.date, d.proceeds, gross - fees)); }
                let (lg, lc): (Decimal, Decimal) = d.matches.iter().fold((Decimal::ZERO, Decimal::ZERO), |a, m| (a.0 + m.gain_or_loss, a.1 + m.allowable_cost));
                if (lg - (d.proceeds - lc)).abs() > tolp { push("C04", "gain_identity", format!("{} {}: legs' gains {lg} != net proceeds {} - cost {lc}", d.ticker, d.date, d.proceeds)); }
                if lg >= Decimal::ZERO { g += lg } else { l -= lg }
                if !listed.insert((d.ticker.clone(), d.date)) { push("C04", "duplicate_disposal", format!("{} {} is listed twice", d.ticker, d.date)); }
                let uk = if (d.date.month(), d.date.day()) >= (4, 6) { d.date.year() } else { d.date.year() - 1 };
                if i32::from(y.period.start_year()) != uk { push("C07", "wrong_year", format!("{} {} is listed under the tax year starting {}", d.ticker, d.date, y.period.start_year())); }
            }
            if (y.total_gain - g).abs() > tolp || (y.total_loss - l).abs() > tolp || (y.net_gain - (g - l)).abs() > tolp {
                push("C04", "year_totals", format!("tax year {}: total gain {} / loss {} / net {} where its {} disposals give {g} / {l} / {}", y.period.start_year(), y.total_gain, y.total_loss, y.net_gain, y.disposals.len(), g - l));
            }
        }
    }
    let tickers: std::collections::BTreeSet<&str> = txs.iter().map(|t| t.ticker.as_str()).collect();
    for tk in tickers {
        let mut mine: Vec<&Transaction> = txs.iter().filter(|t| t.ticker == tk).collect();
        mine.sort_by_key(|t| t.date);
        let splits: Vec<(NaiveDate, Decimal)> = mine.iter().filter_map(|t| match &t.operation {
            Operation::Split { ratio } => Some((t.date, *ratio)),
            Operation::Unsplit { ratio } => Some((t.date, Decimal::ONE / *ratio)),
            _ => None,
        }).collect();
        // units of day b per unit of day a (a <= b): the reorganisations dated a <= x < b act between them (a split acts
        // at the end of its day; no trade shares a day with one here)
        let ratio = |a: NaiveDate, b: NaiveDate| splits.iter().filter(|(d, _)| *d >= a && *d < b).fold(Decimal::ONE, |r, (_, k)| r * *k);
        let (mut bought, mut sold): (BTreeMap<NaiveDate, Decimal>, BTreeMap<NaiveDate, Decimal>) = (BTreeMap::new(), BTreeMap::new());
        let mut spent = Decimal::ZERO;
        let mut has_events = false;
        for t in &mine {
            match &t.operation {
                Operation::Buy { amount, price, fees } => { *bought.entry(t.date).or_default() += *amount; spent += *amount * price.amount + fees.amount; }
                Operation::Sell { amount, .. } => { *sold.entry(t.date).or_default() += *amount; }
                Operation::Accumulation { total_value, .. } => { spent += total_value.amount; has_events = true; }
                Operation::CapReturn { total_value, fees, .. } => { spent -= total_value.amount - fees.amount; has_events = true; }
                _ => {}
            }
        }
        let last = mine.last().map(|t| t.date).unwrap_or_default() + Duration::days(1);
        // ---- ClosingHolding: all acquisitions minus all disposals, each rescaled to closing units
        let mut closing = Decimal::ZERO;
        for (d, q) in &bought { closing += *q * ratio(*d, last); }
        for (d, q) in &sold { closing -= *q * ratio(*d, last); }
        let h = report.holdings.iter().find(|h| h.ticker == tk);
        let (hq, hc) = h.map(|h| (h.quantity, h.total_cost)).unwrap_or((Decimal::ZERO, Decimal::ZERO));
        if (hq - closing).abs() > tol { push("C02", "closing_holding", format!("{tk}: closing holding {hq}, acquisitions minus disposals (rescaled by the reorganisations between them) {closing}")); }
        // ---- LegsSumToSold, ClaimsWithinBought, LegOrder (same-day part), CostConservedAtEnd
        let mut claimed: BTreeMap<NaiveDate, Decimal> = BTreeMap::new();
        let mut legs_cost = Decimal::ZERO;
        let mut seen: BTreeMap<NaiveDate, Decimal> = BTreeMap::new();
        for y in &report.tax_years {
            for d in y.disposals.iter().filter(|d| d.ticker == tk) {
                cnt.inc("disposals");
                if d.matches.len() >= 3 { cnt.inc("three_leg_disposals"); }
                let sumq: Decimal = d.matches.iter().map(|m| m.quantity).sum();
                *seen.entry(d.date).or_default() += sumq;
                let mut same = Decimal::ZERO;
                for m in &d.matches {
                    legs_cost += m.allowable_cost;
                    if m.allowable_cost < -tol { push("C11", "negative_leg_cost", format!("{tk} {}: leg with allowable cost {}", d.date, m.allowable_cost)); }
                    match (&m.rule, m.acquisition_date) {
                        (MatchRule::Section104, _) => {}
                        (MatchRule::SameDay, a) => {
                            same += m.quantity;
                            if a.is_some() && a != Some(d.date) { push("C01", "leg_identification", format!("{tk} {}: Same Day leg with acquisition date {:?}", d.date, a)); }
                            *claimed.entry(d.date).or_default() += m.quantity;
                        }
                        (_, Some(a)) => {
                            if a <= d.date || (a - d.date).num_days() > 30 { push("C01", "leg_identification", format!("{tk} {}: 30-day leg matched with the acquisition of {a}", d.date)); }
                            *claimed.entry(a).or_default() += m.quantity * ratio(d.date, a);
                        }
                        (_, None) => push("C01", "leg_identification", format!("{tk} {}: 30-day leg without an acquisition date", d.date)),
                    }
                }
                // the Same Day rule comes first: min(sold, bought) of the day is identified with the day's purchase
                let want_same = sold.get(&d.date).copied().unwrap_or_default().min(bought.get(&d.date).copied().unwrap_or_default());
                if y.disposals.iter().filter(|x| x.ticker == tk && x.date == d.date).count() == 1 && (same - want_same).abs() > tol {
                    push("C01", "leg_identification", format!("{tk} {}: {same} shares identified under the Same Day rule; sold {} and bought {} that day", d.date, sold.get(&d.date).copied().unwrap_or_default(), bought.get(&d.date).copied().unwrap_or_default()));
                }
            }
        }
        for (d, q) in &sold {
            let s = seen.get(d).copied().unwrap_or_default();
            if (s - *q).abs() > tol { push("C02", "legs_vs_sold", format!("{tk} {d}: legs sum to {s}, sold {q}")); }
        }
        for (d, s) in &seen { if !sold.contains_key(d) { push("C02", "legs_vs_sold", format!("{tk} {d}: a disposal of {s} is reported on a day without a sale")); } }
        for (a, q) in &claimed {
            let b = bought.get(a).copied().unwrap_or_default();
            if *q > b + tol { push("C02", "acquisition_overmatched", format!("{tk}: {q} shares identified with the acquisition of {a}, which was of {b}")); }
        }
        let total = legs_cost + hc;
        if (total - spent).abs() > Decimal::new(1, 6) {
            push(if has_events { "C11" } else { "C03" }, if has_events { "event_amount_not_conserved" } else { "cost_not_conserved" }, format!("{tk}: legs + closing cost = {total}, expenditure (purchases + accumulations - capital returns net of their fees) {spent}"));
            if has_events { push("C03", "cost_not_conserved", format!("{tk}: legs + closing cost = {total}, expenditure {spent}")); }
        }
        if hc < -tol { push("C11", "negative_holding_cost", format!("{tk}: holding cost {hc}")); }
    }
}
