//! Replays MC_CgtLaw pairs (PAIR lines): the implementation must satisfy, run against run,
//! the same relation that TLC verified between the specification's two outcomes.
//!
//! usage: replay_law --in TLC_LOG --out FINDINGS.ndjson

use cgt_core::calculator::calculate;
use cgt_core::{TaxReport, Transaction};
use cgtv::ledger::*;
use cgtv::rat::{Rat, tol_proceeds};
use cgtv::summary::{RepSum, compare, summarize};
use cgtv::{Counters, Finding, guarded};
use chrono::NaiveDate;
use rust_decimal::Decimal;
use serde::Deserialize;
use serde_json::json;
use std::io::Write;

#[derive(Debug, Clone, Deserialize)]
struct Par {
    law: String,
    #[serde(default)]
    sec: Option<String>,
    #[serde(default)]
    x: Option<usize>,
    #[serde(default)]
    f: Option<Rat>,
    #[serde(default)]
    p: Option<usize>,
}

#[derive(Debug, Clone, Deserialize)]
struct Pair {
    par: Par,
    a: Rec,
    b: Rec,
}

type Res = Result<Result<TaxReport, String>, String>;

fn run(txs: &[Transaction], cfg: &cgt_core::Config) -> Res {
    let t2 = txs.to_vec();
    guarded(move || calculate(&t2, None, None, cfg).map_err(|e| e.to_string()))
}

fn status(r: &Res) -> &'static str {
    match r {
        Ok(Ok(_)) => "ok",
        Ok(Err(_)) => "err",
        Err(_) => "panic",
    }
}

fn pre_split(timing: &str, d_idx: usize, x: usize) -> bool {
    if timing == "end" { d_idx <= x } else { d_idx < x }
}

/// The extension law at a scale no bounded model reaches: savings-plan ledgers of 150-200 lines (70+ monthly purchases of
/// one fund, an accumulation every December, an order-sensitive same-day ACCUMULATION + CAPRETURN pair, occasional sales, a
/// second security listed as a block of its own so that the file is NOT in date order), cut at a date; the prefix alone and
/// the whole ledger must agree on every disposal of the prefix and on its acceptance.  Seeded; implementation vs implementation.
fn long_extend(seeds: u64, config: &cgt_core::Config, cnt: &mut Counters) -> Vec<Finding> {
    use cgt_core::{Currency, CurrencyAmount, Operation};
    use rand::rngs::StdRng;
    use rand::{Rng, SeedableRng};
    let gbp = |x: i64| CurrencyAmount::new(Decimal::new(x, 2), Currency::GBP);
    let d = |y: i32, m: u32, dd: u32| NaiveDate::from_ymd_opt(y, m, dd).unwrap_or_default();
    let mut out = Vec::new();
    for seed in 0..seeds {
        let mut rng = StdRng::seed_from_u64(seed * 7919 + 5);
        // 66..71 purchase months from January 2015: the last one is November 2020 at the latest, so that nothing of the
        // prefix lies within 30 days of the later transactions and no cost event is among them (C12's precondition)
        let months = 66 + (seed as u32 % 6);
        let mut fund: Vec<Transaction> = Vec::new();
        let mut held: i64 = 0;
        for k in 0..months {
            let (y, m) = (2015 + (k / 12) as i32, 1 + k % 12);
            let q = rng.gen_range(5..=12);
            fund.push(Transaction { date: d(y, m, 15), ticker: "FUND".into(), operation: Operation::Buy { amount: Decimal::from(q), price: gbp(rng.gen_range(900..1300)), fees: gbp(rng.gen_range(0..150)) } });
            held += q;
            if m == 12 {
                fund.push(Transaction { date: d(y, 12, 31), ticker: "FUND".into(), operation: Operation::Accumulation { amount: Decimal::from(held), total_value: gbp(rng.gen_range(300..900)), tax_paid: gbp(0) } });
            }
            // (every third ledger has no sale before the last one: all 66+ lots stay open until then)
            if seed % 3 != 0 && k % 11 == 7 && held > 30 {
                let sq = rng.gen_range(10..=25);
                fund.push(Transaction { date: d(y, m, 16), ticker: "FUND".into(), operation: Operation::Sell { amount: Decimal::from(sq), price: gbp(rng.gen_range(1000..1500)), fees: gbp(100) } });
                held -= sq;
            }
        }
        // a larger sale the day after the last purchase of the prefix (it empties several old lots for good)
        {
            let k = months - 1;
            let sq = rng.gen_range(40..=60).min(held - 1);
            fund.push(Transaction { date: d(2015 + (k / 12) as i32, 1 + k % 12, 16), ticker: "FUND".into(), operation: Operation::Sell { amount: Decimal::from(sq), price: gbp(rng.gen_range(1000..1500)), fees: gbp(100) } });
        }
        // BOND: bought once, an accumulation and a capital return on one day; the return fits only after the accumulation
        let mut bond: Vec<Transaction> = vec![
            Transaction { date: d(2019, 5, 1), ticker: "BOND".into(), operation: Operation::Buy { amount: Decimal::from(10), price: gbp(1000), fees: gbp(0) } },
            Transaction { date: d(2019, 5, 31), ticker: "BOND".into(), operation: Operation::Accumulation { amount: Decimal::from(10), total_value: gbp(5000), tax_paid: gbp(0) } },
            Transaction { date: d(2019, 5, 31), ticker: "BOND".into(), operation: Operation::CapReturn { amount: Decimal::from(10), total_value: gbp(12000), fees: gbp(0) } },
            Transaction { date: d(2019, 9, 2), ticker: "BOND".into(), operation: Operation::Sell { amount: Decimal::from(4), price: gbp(900), fees: gbp(0) } },
        ];
        for k in 0..(8 + seed as u32 % 6) {
            bond.push(Transaction { date: d(2019 + ((9 + k) / 12) as i32, 1 + (9 + k) % 12, 20), ticker: "BOND".into(), operation: Operation::Buy { amount: Decimal::from(2), price: gbp(rng.gen_range(300..400)), fees: gbp(0) } });
        }
        // five more securities of the same shape at other dates (each block has its own order-sensitive same-day pair)
        let mut others: Vec<Transaction> = Vec::new();
        for j in 0..5u32 {
            let t = format!("BND{j}");
            let (y, m) = (2016 + (j as i32 + seed as i32) % 4, 2 + (j * 2 + seed as u32) % 9);
            others.push(Transaction { date: d(y, m, 3), ticker: t.clone(), operation: Operation::Buy { amount: Decimal::from(10), price: gbp(1000), fees: gbp(0) } });
            others.push(Transaction { date: d(y, m + 1, 7), ticker: t.clone(), operation: Operation::Accumulation { amount: Decimal::from(10), total_value: gbp(5000), tax_paid: gbp(0) } });
            others.push(Transaction { date: d(y, m + 1, 7), ticker: t.clone(), operation: Operation::CapReturn { amount: Decimal::from(10), total_value: gbp(12000), fees: gbp(0) } });
            others.push(Transaction { date: d(y, m + 2, 9), ticker: t.clone(), operation: Operation::Sell { amount: Decimal::from(3), price: gbp(800), fees: gbp(0) } });
        }
        let cut = d(2020, 11, 30);
        let mut all = fund.clone();
        all.extend(bond.clone());               // one block per security: not in date order
        all.extend(others);
        // later transactions: purchases and a sale, more than 30 days after the cut
        for k in 0..(1 + seed as u32 % 4) {
            all.push(Transaction { date: d(2021, 3 + k, 1), ticker: if k % 2 == 0 { "FUND" } else { "BOND" }.into(), operation: Operation::Buy { amount: Decimal::from(10), price: gbp(1100), fees: gbp(0) } });
        }
        all.push(Transaction { date: d(2021, 9, 1), ticker: "FUND".into(), operation: Operation::Sell { amount: Decimal::from(5), price: gbp(1400), fees: gbp(0) } });
        let prefix: Vec<Transaction> = all.iter().filter(|t| t.date <= cut).cloned().collect();
        let (ra, rb) = (run(&prefix, config), run(&all, config));
        cnt.add("executions", 2);
        cnt.inc("long_pairs");
        let input = format!("--- prefix ({} lines)\n{}--- whole ledger: the prefix plus\n{}", prefix.len(), to_dsl(&prefix), to_dsl(&all.iter().filter(|t| t.date > cut).cloned().collect::<Vec<_>>()));
        let mut push = |kind: &str, detail: String| out.push(Finding { prop: "C12".into(), kind: kind.into(), case: seed as usize, detail, input: input.clone(), data: json!({"long": true}) });
        match (&ra, &rb) {
            (Ok(Ok(a)), Ok(Ok(b))) => {
                let sa = summarize(a, None);
                let mut sb = summarize(b, None);
                sb.disposals.retain(|k, _| k.1 <= cut);
                let (mut sa2, mut sb2) = (sa.clone(), sb.clone());
                sa2.holdings.clear();
                sb2.holdings.clear();
                let df = compare(&sa2, &sb2, tol_proceeds(), false);
                if !df.deep.is_empty() || !df.shallow.is_empty() {
                    let mut allv = df.deep.clone();
                    allv.extend(df.shallow.clone());
                    push("relation_broken", format!("extend law broken on a long ledger ({} + {} lines): {}", prefix.len(), all.len() - prefix.len(), allv.iter().take(4).cloned().collect::<Vec<_>>().join("; ")));
                }
            }
            (Ok(Ok(_)), Ok(Err(msg))) => {
                if msg.contains("2019-") || msg.contains("2020-") || msg.contains("2018-") || msg.contains("2017-") || msg.contains("2016-") || msg.contains("2015-") {
                    push("prefix_rejected_by_suffix", format!("prefix accepted alone, but with later transactions it is refused for a prefix date: {msg}"));
                }
            }
            (Ok(Err(m1)), Ok(Ok(_))) => push("suffix_legitimises_prefix", format!("prefix refused alone ({m1}) but accepted with later transactions")),
            (Err(p), _) | (_, Err(p)) => push("panic", format!("calculate panicked: {p}")),
            _ => {}
        }
    }
    out
}

fn main() {
    let v: Vec<String> = std::env::args().collect();
    let mut input = String::new();
    let mut out = String::new();
    let mut i = 1;
    while i < v.len() {
        match v[i].as_str() {
            "--in" => { input = v[i + 1].clone(); i += 1; }
            "--out" => { out = v[i + 1].clone(); i += 1; }
            _ => {}
        }
        i += 1;
    }
    cgtv::silence_panics();
    let lines = cgtv::tlc::tagged_lines(&input, "PAIR").unwrap_or_else(|e| {
        eprintln!("cannot read {input}: {e}");
        std::process::exit(2);
    });
    let pairs: Vec<Pair> = cgtv::par::par_map(&lines, cgtv::par::threads(), |i, l| match serde_json::from_str::<Pair>(l) {
        Ok(r) => r,
        Err(e) => {
            eprintln!("bad PAIR line {i}: {e}: {}", &l[..l.len().min(300)]);
            std::process::exit(2);
        }
    });
    drop(lines);
    let config = full_config();
    let base = base_dates()[0];
    let results = cgtv::par::par_map(&pairs, cgtv::par::threads(), |case_no, pair| {
        let mut cnt = Counters::default();
        let mut findings: Vec<Finding> = Vec::new();
        let par = &pair.par;
        cnt.inc("pairs");
        // the implementation applies a split after its day's trades; pairs built for the other
        // reading of a split-day trade are not its business
        if par.law == "rescale" && pair.a.timing == "start" && pair.a.trade_on_split_day() {
            cnt.inc("skipped_other_split_timing");
            return (findings, cnt);
        }
        let prop = match par.law.as_str() {
            "rescale" | "unsplit" => "C10",
            "extend" => "C12",
            "project" => "C09",
            _ => "C10",
        };
        // the extension law is about the 30-day horizon: try it across a leap-year end as well
        let bds = base_dates();
        let runs: Vec<(chrono::NaiveDate, Order, &str)> = if par.law == "extend" {
            // ... and with the first later slot falling on 6 April 2024, the day after the prefix's tax year closes
            let first_ext = pair.b.days.get(par.p.unwrap_or(0)).copied().unwrap_or(0) - pair.b.days.first().copied().unwrap_or(0);
            let apr6 = NaiveDate::from_ymd_opt(2024, 4, 6).unwrap_or(bds[0]) - chrono::Duration::days(first_ext);
            vec![(bds[0], Order::Canonical, "plain"), (bds[1], Order::Shuffled(case_no as u64), "plain"), (bds[7], Order::ActionsFirst, "plain"), (apr6, Order::Canonical, "plain"),
                 (bds[0], Order::Canonical, "mixed_fills"), (bds[0], Order::Canonical, "later_lines_first"), (bds[0], Order::Canonical, "padded")]
        } else {
            vec![(base, Order::Canonical, "plain"), (base, Order::Shuffled(case_no as u64), "plain"), (base, Order::ActionsFirst, "plain")]
        };
        for (base, order, mode) in runs {
            let r = Render { base, order, fills: Fills::One, lower: false, dividends: false, only: None };
            let (ta, tb) = match mode {
                // the prefix with its purchases entered as two fills separated by another security's line and nothing else
                // merged; the later transactions entered as adjacent fills (what is merged later must not reach back)
                "mixed_fills" => {
                    let lp = date_of(&pair.a, base, par.p.unwrap_or(0));
                    let ta = render(&pair.a, &Render { fills: Fills::BuysSeparated, ..r });
                    let mut tb = ta.clone();
                    tb.extend(render(&pair.b, &Render { fills: Fills::Halves, ..r }).into_iter().filter(|t| t.date > lp));
                    (ta, tb)
                }
                // the prefix in date order with each day's SPLIT / event lines BEFORE its trades; the later transactions
                // pasted in front of it (a file that is no longer in date order)
                "later_lines_first" => {
                    let lp = date_of(&pair.a, base, par.p.unwrap_or(0));
                    let mut ta = render(&pair.a, &r);
                    ta.sort_by_key(|t| (t.date, matches!(t.operation, cgt_core::Operation::Buy { .. } | cgt_core::Operation::Sell { .. })));
                    let mut tb: Vec<Transaction> = render(&pair.b, &r).into_iter().filter(|t| t.date > lp).collect();
                    tb.extend(ta.clone());
                    (ta, tb)
                }
                // the later transactions are MANY: 70 later purchases of another security, so that the file grows from a handful
                // of lines past any size threshold (64, 128 lines ...) at which an implementation might switch data structures
                "padded" => {
                    if case_no % 3 != 0 { continue; }
                    let ta = render(&pair.a, &r);
                    let mut tb = render(&pair.b, &r);
                    let last = tb.iter().map(|t| t.date).max().unwrap_or(base);
                    for i in 0..70i64 {
                        tb.push(Transaction { date: last + chrono::Duration::days(40 + i), ticker: "ZZPAD".into(),
                            operation: cgt_core::Operation::Buy { amount: rust_decimal::Decimal::ONE, price: cgtv::ledger::gbp(cgtv::rat::Rat::int(5)), fees: cgtv::ledger::gbp(cgtv::rat::Rat::ZERO) } });
                    }
                    (ta, tb)
                }
                _ => (render(&pair.a, &r), render(&pair.b, &r)),
            };
            let ra = run(&ta, &config);
            let rb = run(&tb, &config);
            cnt.add("executions", 2);
            let mut push = |kind: &str, detail: String, data: serde_json::Value| {
                findings.push(Finding {
                    prop: prop.into(),
                    kind: kind.into(),
                    case: case_no,
                    detail,
                    input: format!("--- first ({})\n{}--- second\n{}", par.law, to_dsl(&ta), to_dsl(&tb)),
                    data,
                });
            };
            if status(&ra) == "panic" || status(&rb) == "panic" {
                push("panic", "calculate panicked".into(), json!({}));
                continue;
            }
            let last_prefix_date: Option<NaiveDate> = par.p.map(|p| date_of(&pair.a, base, p));
            match par.law.as_str() {
                "extend" => {
                    // prefix accepted => extension accepted, or refused for a date after the prefix
                    match (&ra, &rb) {
                        (Ok(Ok(_)), Ok(Err(msg))) => {
                            let lp = last_prefix_date.unwrap_or(base);
                            let names_prefix_date = (1..=par.p.unwrap_or(0)).any(|d| msg.contains(&date_of(&pair.a, base, d).format("%Y-%m-%d").to_string()));
                            if names_prefix_date {
                                push("prefix_rejected_by_suffix", format!("prefix accepted alone, but with later transactions (after {lp}) it is refused for a prefix date: {msg}"), json!({"message": msg}));
                            }
                            cnt.inc("extension_refused");
                            continue;
                        }
                        (Ok(Err(_)), Ok(Ok(_))) => {
                            push("suffix_legitimises_prefix", "prefix refused alone but accepted with later transactions".into(), json!({}));
                            continue;
                        }
                        _ => {}
                    }
                }
                _ => {
                    if status(&ra) != status(&rb) {
                        // project: the combined ledger may fail because of the OTHER security only
                        if par.law == "project" {
                            if let (Ok(Err(msg)), Ok(Ok(_))) = (&ra, &rb) {
                                let other = pair.a.secs.iter().find(|s| Some(*s) != par.sec.as_ref());
                                if other.map(|o| msg.contains(o.as_str())).unwrap_or(false) {
                                    cnt.inc("other_security_uncovered");
                                    continue;
                                }
                            }
                        }
                        push("status_differs", format!("first is {}, second is {}", status(&ra), status(&rb)), json!({}));
                        continue;
                    }
                }
            }
            let (Ok(Ok(repa)), Ok(Ok(repb))) = (&ra, &rb) else { cnt.inc("both_refused"); continue; };
            cnt.inc("both_accepted");
            let mut sa: RepSum = summarize(repa, None);
            let mut sb: RepSum = summarize(repb, None);
            let mut years = true;
            match par.law.as_str() {
                "rescale" => {
                    let (Some(x), Some(f)) = (par.x, par.f) else { continue };
                    let fd = f.to_decimal();
                    let idx_of = |date: NaiveDate| (1..=pair.a.n()).find(|d| date_of(&pair.a, base, *d) == date).unwrap_or(usize::MAX);
                    let split_sec = par.sec.clone().unwrap_or_default();
                    for ((ticker, date), d) in sa.disposals.iter_mut() {
                        if *ticker == split_sec && pre_split(&pair.a.timing, idx_of(*date), x) {
                            d.q *= fd;
                            for l in d.legs.values_mut() { l.q *= fd; }
                        }
                    }
                    if sa.disposals.values().any(|d| d.legs.len() >= 2) { cnt.inc("nontrivial"); }
                }
                "unsplit" => { if !sa.disposals.is_empty() { cnt.inc("nontrivial"); } }
                "extend" => {
                    let lp = last_prefix_date.unwrap_or(base);
                    sb.disposals.retain(|k, _| k.1 <= lp);
                    sa.holdings.clear();
                    sb.holdings.clear();
                    years = false;
                    if !sa.disposals.is_empty() { cnt.inc("nontrivial"); }
                }
                "project" => {
                    let s = par.sec.clone().unwrap_or_default();
                    sa.disposals.retain(|k, _| k.0 == s);
                    sa.holdings.retain(|k, _| *k == s);
                    years = false;
                    if !sa.disposals.is_empty() { cnt.inc("nontrivial"); }
                }
                _ => {}
            }
            // C12 through the single-year view: the report of a year that closed before the first later
            // transaction is the same whether or not the later transactions are there
            if par.law == "extend" {
                let first_later = date_of(&pair.b, base, par.p.unwrap_or(0) + 1);
                for y in sa.years.keys() {
                    let Some(end) = NaiveDate::from_ymd_opt(i32::from(*y) + 1, 4, 5) else { continue };
                    if end >= first_later { continue; }
                    let (t1, t2) = (ta.clone(), tb.clone());
                    let cfg = &config;
                    let yy = i32::from(*y);
                    let ya = guarded(move || calculate(&t1, Some(yy), None, cfg).map(|r| format!("{:?}", r.tax_years)).map_err(|e| e.to_string()));
                    let yb = guarded(move || calculate(&t2, Some(yy), None, cfg).map(|r| format!("{:?}", r.tax_years)).map_err(|e| e.to_string()));
                    cnt.add("executions", 2);
                    cnt.inc("closed_year_views");
                    if ya != yb {
                        push("closed_year_view_changed", format!("the report for tax year {y}/{} (closed before {first_later}) changes when the later transactions are added:\n{:?}\nvs\n{:?}", (y + 1) % 100, ya, yb), json!({"year": y}));
                        break;
                    }
                }
            }
            let d = compare(&sa, &sb, tol_proceeds(), years);
            if !d.deep.is_empty() || !d.shallow.is_empty() {
                let mut all = d.deep.clone();
                all.extend(d.shallow.clone());
                push("relation_broken", format!("{} law broken ({:?} order): {}", par.law, order, all.join("; ")), json!({"diffs": all}));
            }
        }
        (findings, cnt)
    });
    let mut cnt = Counters::default();
    let long_findings = if pairs.first().map(|p| p.par.law == "extend").unwrap_or(false) { long_extend(24, &config, &mut cnt) } else { Vec::new() };
    let mut w = std::io::BufWriter::new(std::fs::File::create(&out).unwrap_or_else(|e| {
        eprintln!("cannot write {out}: {e}");
        std::process::exit(2);
    }));
    let mut nf = 0usize;
    for f in &long_findings {
        nf += 1;
        let _ = writeln!(w, "{}", serde_json::to_string(f).unwrap_or_default());
    }
    for (fs, c) in &results {
        cnt.merge(c);
        for f in fs {
            nf += 1;
            let _ = writeln!(w, "{}", serde_json::to_string(f).unwrap_or_default());
        }
    }
    let r = Render { base, order: Order::Canonical, fills: Fills::One, lower: false, dividends: false, only: None };
    let sample: Vec<String> = pairs.iter().step_by((pairs.len() / 2).max(1)).take(2)
        .map(|p| format!("{}: {} => {}", p.par.law, to_dsl(&render(&p.a, &r)).replace('\n', " | "), to_dsl(&render(&p.b, &r)).replace('\n', " | "))).collect();
    println!("{}", json!({"records": pairs.len(), "findings": nf, "counters": cnt.map, "samples": sample}));
}
