//! Replays MC_Dsl cases (DSL lines) against cgt_core::parser / dsl writer / serde (C13, C14).
//!
//! usage: replay_dsl --in TLC_LOG --out FINDINGS.ndjson

use cgt_core::dsl::transactions_to_dsl;
use cgt_core::parser::parse_file;
use cgt_core::{Currency, CurrencyAmount, Operation, Transaction};
use cgtv::{Counters, Finding, guarded};
use chrono::NaiveDate;
use rust_decimal::Decimal;
use serde::Deserialize;
use serde_json::json;
use std::io::Write;
use std::str::FromStr;

#[derive(Debug, Clone, Deserialize)]
struct TokRec {
    text: String,
    letters: bool,
}

#[derive(Debug, Clone, Deserialize)]
struct Style {
    kwcase: String,
    gap: String,
    comment: String,
    eol: String,
    last: String,
    filler: String,
}

#[derive(Debug, Clone, Deserialize)]
struct Fields {
    qty: String,
    amount: String,
    cur: String,
    extra: String,
    xcur: String,
}

#[derive(Debug, Clone, Deserialize)]
struct Meaning {
    date: String,
    cmd: String,
    ticker: String,
    f: Fields,
}

#[derive(Debug, Clone, Deserialize)]
struct JsonShape { money: String, action: String, ticker: String, zero_clause: String, capret: String }
#[derive(Debug, Clone, Deserialize)]
struct JsonCase { meaning: Meaning, shape: JsonShape }

fn json_money(a: &str, c: &str, form: &str) -> serde_json::Value {
    if c == "GBP" && form == "string" { json!(a) }
    else if c == "GBP" && form == "number" { match a.parse::<i64>() { Ok(n) => json!(n), Err(_) => json!(a) } }
    else { json!({"amount": a, "currency": c}) }
}

/// the JSON text of a transaction under a spelling (field names from the parse_transactions tool description)
fn json_spelling(c: &JsonCase) -> String {
    let m = &c.meaning;
    let sh = &c.shape;
    let action = if m.cmd == "CAPRETURN" { sh.capret.clone() } else { m.cmd.clone() };
    let action = recase(&action, &sh.action);
    let ticker = if sh.ticker == "lower" { m.ticker.to_lowercase() } else { m.ticker.to_uppercase() };
    let mut o = serde_json::Map::new();
    o.insert("date".into(), json!(m.date));
    o.insert("ticker".into(), json!(ticker));
    o.insert("action".into(), json!(action));
    let zero = m.f.extra == "0";
    let extra = |o: &mut serde_json::Map<String, serde_json::Value>, key: &str| {
        if !zero || sh.zero_clause == "spell" { o.insert(key.into(), json_money(&m.f.extra, &m.f.xcur, &sh.money)); }
    };
    match m.cmd.as_str() {
        "BUY" | "SELL" => { o.insert("amount".into(), json!(m.f.qty)); o.insert("price".into(), json_money(&m.f.amount, &m.f.cur, &sh.money)); extra(&mut o, "fees"); }
        "DIVIDEND" => { o.insert("total_value".into(), json_money(&m.f.amount, &m.f.cur, &sh.money)); extra(&mut o, "tax_paid"); }
        "ACCUMULATION" => { o.insert("amount".into(), json!(m.f.qty)); o.insert("total_value".into(), json_money(&m.f.amount, &m.f.cur, &sh.money)); extra(&mut o, "tax_paid"); }
        "CAPRETURN" => { o.insert("amount".into(), json!(m.f.qty)); o.insert("total_value".into(), json_money(&m.f.amount, &m.f.cur, &sh.money)); extra(&mut o, "fees"); }
        _ => { o.insert("ratio".into(), json!(m.f.amount)); }
    }
    serde_json::Value::Array(vec![serde_json::Value::Object(o)]).to_string()
}

#[derive(Debug, Clone, Deserialize)]
struct Case {
    tokens: Vec<TokRec>,
    style: Style,
    corr: serde_json::Value,
    mode: String,
    accept: bool,
    meaning: serde_json::Value,
    written: Vec<String>,
}

fn recase(s: &str, how: &str) -> String {
    match how {
        "lower" => s.to_lowercase(),
        "mixed" => s.chars().enumerate().map(|(i, c)| if i % 2 == 0 { c.to_ascii_lowercase() } else { c.to_ascii_uppercase() }).collect(),
        _ => s.to_string(),
    }
}

fn gap(how: &str) -> &'static str {
    match how {
        "tab" => "\t",
        "multi" => "  \t ",
        _ => " ",
    }
}

fn eol(how: &str) -> &'static str {
    match how {
        "crlf" => "\r\n",
        "cr" => "\r",
        _ => "\n",
    }
}

const L1: &str = "2020-01-01 BUY ZZZ 1 @ 1";
const L3: &str = "2020-01-03 SELL ZZZ 1 @ 2";

/// (text, byte range of the line under test including its line ending)
fn render(c: &Case) -> (String, (usize, usize)) {
    let st = &c.style;
    let e = eol(&st.eol);
    let mut s = String::new();
    s.push_str(L1);
    s.push_str(e);
    match st.filler.as_str() {
        "blank" => s.push_str(e),
        "comment" => { s.push_str("# a full-line comment with BUY 1 @ 2"); s.push_str(e); }
        "spaces" => { s.push_str("   \t"); s.push_str(e); }
        _ => {}
    }
    let start = s.len();
    let toks: Vec<String> = c.tokens.iter().map(|t| if t.letters { recase(&t.text, &st.kwcase) } else { t.text.clone() }).collect();
    s.push_str(&toks.join(gap(&st.gap)));
    match st.comment.as_str() {
        "spaced" => s.push_str(" # note"),
        "tight" => s.push_str("# note"),
        "keywords" => s.push_str("  # BUY 10 @ 5 FEES TAX 2020-01-01"),
        _ => {}
    }
    s.push_str(e);
    let end = s.len();
    s.push_str(L3);
    if st.last == "eol" { s.push_str(e); }
    (s, (start, end))
}

fn money(a: &str, c: &str) -> Option<CurrencyAmount> {
    Some(CurrencyAmount::new(Decimal::from_str(a).ok()?, Currency::from_code(c)?))
}

fn build(m: &Meaning) -> Option<Transaction> {
    let date = NaiveDate::parse_from_str(&m.date, "%Y-%m-%d").ok()?;
    let q = || Decimal::from_str(&m.f.qty).ok();
    let op = match m.cmd.as_str() {
        "BUY" => Operation::Buy { amount: q()?, price: money(&m.f.amount, &m.f.cur)?, fees: money(&m.f.extra, &m.f.xcur)? },
        "SELL" => Operation::Sell { amount: q()?, price: money(&m.f.amount, &m.f.cur)?, fees: money(&m.f.extra, &m.f.xcur)? },
        "DIVIDEND" => Operation::Dividend { total_value: money(&m.f.amount, &m.f.cur)?, tax_paid: money(&m.f.extra, &m.f.xcur)? },
        "ACCUMULATION" => Operation::Accumulation { amount: q()?, total_value: money(&m.f.amount, &m.f.cur)?, tax_paid: money(&m.f.extra, &m.f.xcur)? },
        "CAPRETURN" => Operation::CapReturn { amount: q()?, total_value: money(&m.f.amount, &m.f.cur)?, fees: money(&m.f.extra, &m.f.xcur)? },
        "SPLIT" => Operation::Split { ratio: Decimal::from_str(&m.f.amount).ok()? },
        "UNSPLIT" => Operation::Unsplit { ratio: Decimal::from_str(&m.f.amount).ok()? },
        _ => return None,
    };
    Some(Transaction { date, ticker: m.ticker.to_uppercase(), operation: op })
}

/// exact comparison including decimal scale (the DSL carries exact decimal literals)
fn same_tx(a: &Transaction, b: &Transaction) -> bool {
    a == b && format!("{a:?}") == format!("{b:?}")
}

/// a zero fee or tax may lose only its currency label
fn normalise(t: &Transaction) -> Transaction {
    let z = |m: &CurrencyAmount| if m.amount.is_zero() { CurrencyAmount::new(Decimal::ZERO, Currency::GBP) } else { m.clone() };
    let mut t = t.clone();
    t.operation = match &t.operation {
        Operation::Buy { amount, price, fees } => Operation::Buy { amount: *amount, price: price.clone(), fees: z(fees) },
        Operation::Sell { amount, price, fees } => Operation::Sell { amount: *amount, price: price.clone(), fees: z(fees) },
        Operation::Dividend { total_value, tax_paid } => Operation::Dividend { total_value: total_value.clone(), tax_paid: z(tax_paid) },
        Operation::Accumulation { amount, total_value, tax_paid } => Operation::Accumulation { amount: *amount, total_value: total_value.clone(), tax_paid: z(tax_paid) },
        Operation::CapReturn { amount, total_value, fees } => Operation::CapReturn { amount: *amount, total_value: total_value.clone(), fees: z(fees) },
        o => o.clone(),
    };
    t
}

/// byte offset of a pest "line:col" position (pest breaks lines at LF only; columns count chars)
fn offset_of(text: &str, line: usize, col: usize) -> Option<usize> {
    let mut start = 0usize;
    for (i, l) in text.split_inclusive('\n').enumerate() {
        if i + 1 == line {
            let mut off = start;
            for (k, ch) in l.chars().enumerate() {
                if k + 1 == col { return Some(off); }
                off += ch.len_utf8();
            }
            return Some(off);
        }
        start += l.len();
    }
    None
}

fn error_position(msg: &str) -> Option<(usize, usize)> {
    let i = msg.find("--> ")?;
    let rest = &msg[i + 4..];
    let end = rest.find(|c: char| !(c.is_ascii_digit() || c == ':')).unwrap_or(rest.len());
    let mut it = rest[..end].split(':');
    Some((it.next()?.parse().ok()?, it.next()?.parse().ok()?))
}

fn main() {
    let v: Vec<String> = std::env::args().collect();
    let (mut input, mut out) = (String::new(), String::new());
    let mut i = 1;
    while i < v.len() {
        match v[i].as_str() {
            "--in" => { input = v[i + 1].clone(); i += 1; }
            "--out" => { out = v[i + 1].clone(); i += 1; }
            _ => {}
        }
        i += 1;
    }
    cgtv::silence_panics();
    let lines = cgtv::tlc::tagged_lines(&input, "DSL").unwrap_or_else(|e| { eprintln!("cannot read {input}: {e}"); std::process::exit(2); });
    let cases: Vec<Case> = cgtv::par::par_map(&lines, cgtv::par::threads(), |i, l| serde_json::from_str::<Case>(l).unwrap_or_else(|e| { eprintln!("bad DSL line {i}: {e}: {}", &l[..l.len().min(300)]); std::process::exit(2); }));
    drop(lines);
    let l1 = parse_file(L1).ok().and_then(|v| v.into_iter().next());
    let l3 = parse_file(L3).ok().and_then(|v| v.into_iter().next());
    let (Some(l1), Some(l3)) = (l1, l3) else { eprintln!("anchor lines do not parse"); std::process::exit(2); };
    // ---------------- C14: JSON spellings
    let jlines = cgtv::tlc::tagged_lines(&input, "JSN").unwrap_or_default();
    let jcases: Vec<JsonCase> = jlines.iter().map(|l| serde_json::from_str(l).unwrap_or_else(|e| { eprintln!("bad JSN line: {e}: {}", &l[..l.len().min(200)]); std::process::exit(2); })).collect();
    let jresults = cgtv::par::par_map(&jcases, cgtv::par::threads(), |case_no, c| {
        let mut fs: Vec<Finding> = Vec::new();
        let text = json_spelling(c);
        let Some(want) = build(&c.meaning) else { eprintln!("cannot build JSON case {case_no}"); std::process::exit(2); };
        match guarded(|| serde_json::from_str::<Vec<Transaction>>(&text).map_err(|e| e.to_string())) {
            Err(p) => fs.push(Finding { prop: "C15".into(), kind: "panic".into(), case: case_no, detail: format!("JSON reader panicked: {p}"), input: text.clone(), data: json!({}) }),
            Ok(Err(e)) => fs.push(Finding { prop: "C14".into(), kind: "json_spelling_rejected".into(), case: case_no, detail: format!("a documented JSON spelling of a transaction is rejected: {e}"), input: text.clone(), data: json!({"shape": format!("{:?}", c.shape)}) }),
            Ok(Ok(got)) => {
                if got.len() != 1 || !same_tx(&normalise(&got[0]), &normalise(&want)) {
                    fs.push(Finding { prop: "C14".into(), kind: "json_spelling_meaning".into(), case: case_no, detail: format!("JSON spelling read as {:?}, expected {:?}", got.first(), want), input: text.clone(), data: json!({"shape": format!("{:?}", c.shape)}) });
                } else {
                    // the DSL rendering of what was read is the DSL rendering of the transaction
                    let a = transactions_to_dsl(&got);
                    let b = transactions_to_dsl(&[want.clone()]);
                    if parse_file(&a).ok() != parse_file(&b).ok() { fs.push(Finding { prop: "C14".into(), kind: "json_dsl_disagree".into(), case: case_no, detail: format!("{a:?} vs {b:?}"), input: text.clone(), data: json!({}) }); }
                }
            }
        }
        fs
    });
    let results = cgtv::par::par_map(&cases, cgtv::par::threads(), |case_no, c| {
        let mut cnt = Counters::default();
        let mut findings: Vec<Finding> = Vec::new();
        cnt.inc("cases");
        let meaning: Option<Meaning> = if c.accept { serde_json::from_value(c.meaning.clone()).ok() } else { None };
        let expected: Option<Transaction> = meaning.as_ref().and_then(build);
        if c.accept && expected.is_none() { eprintln!("case {case_no}: cannot build expected transaction from {}", c.meaning); std::process::exit(2); }
        if c.mode == "roundtrip" {
            // ---------------- C14
            let Some(t) = expected else { return (findings, cnt) };
            let mut push = |kind: &str, detail: String, input: String| findings.push(Finding { prop: "C14".into(), kind: kind.into(), case: case_no, detail, input, data: json!({}) });
            cnt.inc("executions");
            let list = vec![l1.clone(), t.clone(), l3.clone()];
            let dsl = match guarded(|| transactions_to_dsl(&list)) { Ok(s) => s, Err(p) => { push("panic", format!("writer panicked: {p}"), format!("{t:?}")); return (findings, cnt); } };
            let want_line = c.written.join(" ");
            if dsl.lines().nth(1) != Some(want_line.as_str()) {
                push("writer_text", format!("writer produced {:?}, the specification's Write gives {:?}", dsl.lines().nth(1), want_line), dsl.clone());
            }
            match guarded(|| parse_file(&dsl).map_err(|e| e.to_string())) {
                Err(p) => push("panic", format!("parser panicked: {p}"), dsl.clone()),
                Ok(Err(e)) => push("written_dsl_rejected", format!("the writer's output does not parse: {e}"), dsl.clone()),
                Ok(Ok(back)) => {
                    if back.len() != 3 || !same_tx(&normalise(&back[1]), &normalise(&t)) {
                        push("dsl_round_trip", format!("DSL round trip changed the transaction: {:?} -> {:?}", t, back.get(1)), dsl.clone());
                    }
                    let again = transactions_to_dsl(&back);
                    if again != dsl { push("writer_not_idempotent", format!("write(parse(write(t))) differs: {again:?} vs {dsl:?}"), dsl.clone()); }
                }
            }
            match guarded(|| serde_json::to_string(&list).map_err(|e| e.to_string())) {
                Err(p) => push("panic", format!("JSON serialisation panicked: {p}"), format!("{t:?}")),
                Ok(Err(e)) => push("json_write", format!("cannot serialise: {e}"), format!("{t:?}")),
                Ok(Ok(js)) => match guarded(|| serde_json::from_str::<Vec<Transaction>>(&js).map_err(|e| e.to_string())) {
                    Err(p) => push("panic", format!("JSON deserialisation panicked: {p}"), js.clone()),
                    Ok(Err(e)) => push("json_round_trip", format!("the tool's own JSON is rejected on reading back: {e}"), js.clone()),
                    Ok(Ok(back)) => {
                        if back.len() != 3 || !same_tx(&back[1], &t) { push("json_round_trip", format!("JSON round trip changed the transaction: {:?} -> {:?}", t, back.get(1)), js.clone()); }
                    }
                },
            }
            if !matches!(t.operation, Operation::Split { .. } | Operation::Unsplit { .. }) { cnt.inc("nontrivial"); }
            return (findings, cnt);
        }
        // ---------------- C13
        let (text, (start, end)) = render(c);
        let mut push = |kind: &str, detail: String| findings.push(Finding { prop: "C13".into(), kind: kind.into(), case: case_no, detail, input: text.clone(), data: json!({"style": format!("{:?}", c.style), "corruption": c.corr}) });
        cnt.inc("executions");
        if c.style.kwcase != "upper" || c.style.gap != "space" || c.style.comment != "none" || c.style.eol != "lf" || c.style.last != "eol" || c.style.filler != "none" { cnt.inc("styled"); }
        match guarded(|| parse_file(&text).map_err(|e| e.to_string())) {
            Err(p) => findings.push(Finding { prop: "C15".into(), kind: "panic".into(), case: case_no, detail: format!("parser panicked: {p}"), input: text.clone(), data: json!({}) }),
            Ok(Ok(txs)) => {
                if !c.accept {
                    push("invalid_accepted", format!("text that is not a sequence of valid transactions was accepted as {} transaction(s): {:?}", txs.len(), txs.get(1)));
                } else if let Some(t) = &expected {
                    if txs.len() != 3 { push("line_count", format!("{} transactions parsed, 3 expected (something was skipped or invented)", txs.len())); }
                    else {
                        if !same_tx(&txs[0], &l1) || !same_tx(&txs[2], &l3) { push("neighbour_changed", "a neighbouring line was parsed differently".into()); }
                        if !same_tx(&normalise(&txs[1]), &normalise(t)) { push("meaning_changed", format!("parsed {:?}, expected {:?}", txs[1], t)); }
                    }
                    cnt.inc("accepted");
                    // the browser front-end reads the same text through its own entry point (cgt-wasm, compiled natively):
                    // the same transaction list, for every spelling
                    if case_no % 3 == 0 {
                        cnt.inc("wasm_parses");
                        let t2 = text.clone();
                        let w: Option<serde_json::Value> = guarded(move || cgt_wasm::parse_transactions(&t2).map_err(|_| ())).ok().and_then(|r| r.ok()).and_then(|s| serde_json::from_str(&s).ok());
                        let want = serde_json::to_value(&txs).unwrap_or(json!(null));
                        match w {
                            None => push("wasm_parse_differs", "cgt-wasm parse_transactions refuses (or dies on) a text the library parses".into()),
                            Some(g) => if cgtv::canon_numbers(&g) != cgtv::canon_numbers(&want) { push("wasm_parse_differs", format!("cgt-wasm parse_transactions reads {} where the library reads {}", g.to_string().chars().take(300).collect::<String>(), want.to_string().chars().take(300).collect::<String>())); },
                        }
                    }
                }
            }
            Ok(Err(msg)) => {
                if c.accept { push("valid_rejected", format!("valid text rejected: {}", msg.lines().take(6).collect::<Vec<_>>().join(" / "))); }
                else {
                    cnt.inc("rejected");
                    match error_position(&msg).and_then(|(l, col)| offset_of(&text, l, col)) {
                        None => push("error_without_position", format!("the error does not carry a line position: {msg}")),
                        Some(off) => if off < start || off > end { push("error_wrong_line", format!("the error points at byte {off}, the offending line occupies bytes {start}..{end}: {}", msg.lines().take(3).collect::<Vec<_>>().join(" / "))); },
                    }
                }
            }
        }
        (findings, cnt)
    });
    let mut cnt = Counters::default();
    cnt.add("json_spellings", jcases.len() as u64);
    cnt.add("executions", jcases.len() as u64);
    let mut w = std::io::BufWriter::new(std::fs::File::create(&out).unwrap_or_else(|e| { eprintln!("cannot write {out}: {e}"); std::process::exit(2); }));
    let mut nf = 0usize;
    for fs in &jresults { for f in fs { nf += 1; let _ = writeln!(w, "{}", serde_json::to_string(f).unwrap_or_default()); } }
    for (fs, c) in &results {
        cnt.merge(c);
        for f in fs { nf += 1; let _ = writeln!(w, "{}", serde_json::to_string(f).unwrap_or_default()); }
    }
    let sample: Vec<String> = cases.iter().step_by((cases.len() / 3).max(1)).take(3).map(|c| if c.mode == "roundtrip" { c.written.join(" ") } else { render(c).0 }).collect();
    println!("{}", json!({"records": cases.len(), "findings": nf, "counters": cnt.map, "samples": sample}));
}
