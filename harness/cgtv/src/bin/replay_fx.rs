//! Replays MC_Fx behaviours (FX lines) against cgt-money / cgt-core and the cgt-tool binary (C08).
//!
//! usage: replay_fx --in TLC_LOG --out FINDINGS.ndjson --rates /repo/crates/cgt-money/resources/rates --cli PATH [--cli-sample K]

use cgt_core::calculator::calculate;
use cgt_core::{Currency, CurrencyAmount, Operation, TaxReport, Transaction};
use cgt_money::{FxCache, RateFile, load_cache_with_overrides, load_default_cache};
use cgtv::ledger::to_dsl;
use cgtv::{Counters, Finding, guarded};
use chrono::NaiveDate;
use rust_decimal::Decimal;
use serde::Deserialize;
use serde_json::json;
use std::collections::{BTreeMap, HashMap};
use std::io::Write;
use std::path::{Path, PathBuf};
use std::str::FromStr;
use std::time::{Duration, UNIX_EPOCH};

#[derive(Debug, Clone, Deserialize, serde::Serialize, PartialEq)]
struct FileRec {
    id: i64,
    name: (i32, u32),
    period: (i32, u32),
    mtime: u64,
    ext: String,
    rates: Vec<(String, String)>,
}

#[derive(Debug, Clone, Deserialize)]
struct FieldRec {
    cur: String,
    ym: (i32, u32),
    what: String,
}

#[derive(Debug, Clone, Deserialize)]
struct FxRec {
    files: Vec<FileRec>,
    fields: Vec<FieldRec>,
    result: Vec<serde_json::Value>,
    sources: Vec<i64>,
}

const MONTHS: [&str; 12] = ["Jan", "Feb", "Mar", "Apr", "May", "Jun", "Jul", "Aug", "Sep", "Oct", "Nov", "Dec"];

fn last_day(y: i32, m: u32) -> u32 {
    let next = if m == 12 { NaiveDate::from_ymd_opt(y + 1, 1, 1) } else { NaiveDate::from_ymd_opt(y, m + 1, 1) };
    next.and_then(|d| d.pred_opt()).map(|d| chrono::Datelike::day(&d)).unwrap_or(28)
}

/// the synthetic rate a folder file lists for a currency: distinct powers of two
fn synthetic_rate(file_id: i64, cur: &str, sign: &str) -> String {
    match sign {
        "zero" => "0".to_string(),
        "neg" => "-1.5".to_string(),
        _ => {
            let base: i64 = if cur == "USD" { 2 } else { 4 };
            (base * if file_id == 1 { 1 } else { 4 }).to_string()
        }
    }
}

fn file_xml(f: &FileRec) -> String {
    let (y, m) = f.period;
    let mut s = format!(
        "<?xml version=\"1.0\" encoding=\"UTF-8\"?>\n<exchangeRateMonthList Period=\"01/{}/{} to {:02}/{}/{}\">\n",
        MONTHS[(m - 1) as usize], y, last_day(y, m), MONTHS[(m - 1) as usize], y
    );
    for (cur, sign) in &f.rates {
        // "dupzero" / "dupneg": the currency is listed twice (HMRC lists one row per country), a good row first and a
        // non-positive one after it -- the file contains a non-positive rate and must be rejected all the same
        let rows: Vec<String> = match sign.as_str() {
            "dupzero" => vec![synthetic_rate(f.id, cur, "pos"), synthetic_rate(f.id, cur, "zero")],
            "dupneg" => vec![synthetic_rate(f.id, cur, "pos"), synthetic_rate(f.id, cur, "neg")],
            _ => vec![synthetic_rate(f.id, cur, sign)],
        };
        for r in rows {
            s.push_str(&format!(
                "  <exchangeRate>\n    <countryName>X</countryName>\n    <countryCode>XX</countryCode>\n    <currencyName>X</currencyName>\n    <currencyCode>{}</currencyCode>\n    <rateNew>{}</rateNew>\n  </exchangeRate>\n",
                cur, r
            ));
        }
    }
    s.push_str("</exchangeRateMonthList>\n");
    // "garbled": for the library (which receives text) the document is cut off in the middle of an element
    if f.rates.iter().any(|(_, sign)| sign == "garbled") {
        let cut = s.find("<rateNew>").map(|p| p + 4).unwrap_or(s.len() / 2);
        s.truncate(cut);
    }
    s
}

/// the bytes written to disk for the CLI: a "garbled" file is a complete document saved as ISO-8859-1 (a byte that is
/// not valid UTF-8 inside a country name), which the tool cannot read as text
fn file_bytes(f: &FileRec) -> Vec<u8> {
    if f.rates.iter().any(|(_, sign)| sign == "garbled") {
        let mut ok = f.clone();
        for r in ok.rates.iter_mut() { r.1 = "pos".into(); }
        let text = file_xml(&ok).replace("<countryName>X</countryName>", "<countryName>Cura\u{1}ao</countryName>");
        return text.into_bytes().into_iter().map(|b| if b == 1 { 0xE7 } else { b }).collect();
    }
    file_xml(f).into_bytes()
}

fn file_name(f: &FileRec, all: &[FileRec]) -> String {
    // a second file for the same month uses the documented "monthly_xml_" prefix
    let dup = all.iter().any(|o| o.id < f.id && o.name == f.name && o.ext == f.ext);
    format!("{}{:04}-{:02}.{}", if dup { "monthly_xml_" } else { "" }, f.name.0, f.name.1, f.ext)
}

thread_local! {
    static MONTHS_CACHE: std::cell::RefCell<HashMap<(i32, u32), Option<Vec<(String, Decimal)>>>> = std::cell::RefCell::new(HashMap::new());
}

/// all (code, rate) pairs of a bundled month, read straight from the XML text (memoised)
fn bundled_month(dir: &Path, y: i32, m: u32) -> Option<Vec<(String, Decimal)>> {
    if let Some(v) = MONTHS_CACHE.with(|c| c.borrow().get(&(y, m)).cloned()) { return v; }
    let v = bundled_month_uncached(dir, y, m);
    MONTHS_CACHE.with(|c| c.borrow_mut().insert((y, m), v.clone()));
    v
}

fn bundled_month_uncached(dir: &Path, y: i32, m: u32) -> Option<Vec<(String, Decimal)>> {
    let text = std::fs::read_to_string(dir.join(format!("{y:04}-{m:02}.xml"))).ok()?;
    let mut out = Vec::new();
    let mut rest = text.as_str();
    while let Some(i) = rest.find("<currencyCode>") {
        rest = &rest[i + 14..];
        let j = rest.find("</currencyCode>")?;
        let code = rest[..j].trim().to_uppercase();
        let k = rest.find("<rateNew>")?;
        let r2 = &rest[k + 9..];
        let e = r2.find("</rateNew>")?;
        if let Ok(rate) = Decimal::from_str(r2[..e].trim()) {
            out.push((code, rate));
        }
        rest = &r2[e..];
    }
    Some(out)
}

fn tx_date(ym: (i32, u32), what: &str) -> NaiveDate {
    // BUY on the last day of its month, DIVIDEND and the far SELL on the first, the near SELL on the last
    let d = match what {
        "buy_price" | "buy_fees" => last_day(ym.0, ym.1),
        "div_total" | "div_tax" | "cr_total" | "cr_fees" | "ac_total" | "ac_tax" => 1,
        _ => if ym.0 > 2030 { 1 } else { last_day(ym.0, ym.1) },
    };
    NaiveDate::from_ymd_opt(ym.0, ym.1, d).unwrap_or_default()
}

fn amount_of(what: &str) -> Decimal {
    // the capital return is small against the purchase whatever the (synthetic) rates, so s122 never refuses it
    match what { "cr_total" => return Decimal::new(6, 2), "cr_fees" => return Decimal::new(1, 2), _ => {} }
    // amounts carry more decimals than any currency has minor units (unit prices do): conversion must not round them first
    match what {
        "buy_price" => Decimal::new(81237, 4), "buy_fees" => Decimal::new(2005, 3), "div_total" | "ac_total" => Decimal::new(6125, 3),
        "div_tax" | "ac_tax" => Decimal::new(10049, 4), "sell_price" => Decimal::new(123456, 4), _ => Decimal::new(1005, 3),
    }
}

fn ledger(rec: &FxRec, conv: Option<&[Decimal]>) -> Vec<Transaction> {
    let money = |i: usize| -> CurrencyAmount {
        let f = &rec.fields[i];
        match conv {
            Some(c) => CurrencyAmount::new(c[i], Currency::GBP),
            None => CurrencyAmount::new(amount_of(&f.what), Currency::from_code(&f.cur).unwrap_or(Currency::GBP)),
        }
    };
    vec![
        Transaction { date: tx_date(rec.fields[0].ym, "buy_price"), ticker: "AAA".into(), operation: Operation::Buy { amount: Decimal::from(10), price: money(0), fees: money(1) } },
        Transaction { date: tx_date(rec.fields[2].ym, "div_total"), ticker: "AAA".into(), operation: match rec.fields[2].what.as_str() {
            "cr_total" => Operation::CapReturn { amount: Decimal::from(10), total_value: money(2), fees: money(3) },
            "ac_total" => Operation::Accumulation { amount: Decimal::from(10), total_value: money(2), tax_paid: money(3) },
            _ => Operation::Dividend { total_value: money(2), tax_paid: money(3) },
        } },
        Transaction { date: tx_date(rec.fields[4].ym, "sell_price"), ticker: "AAA".into(), operation: Operation::Sell { amount: Decimal::from(5), price: money(4), fees: money(5) } },
    ]
}

fn full_config() -> cgt_core::Config {
    let mut c = cgt_core::Config::default();
    for y in 1900u16..=2100 { c.exemptions.insert(y, Decimal::from(3)); }
    c
}

struct Loaded {
    cache: Result<FxCache, String>,
}

fn run_cli(cli: &str, cwd: &Path, args: &[&str]) -> (i32, String, String) {
    let o = std::process::Command::new(cli).args(args).current_dir(cwd).env("HOME", cwd).output();
    match o {
        Ok(o) => (o.status.code().unwrap_or(-1), String::from_utf8_lossy(&o.stdout).into_owned(), String::from_utf8_lossy(&o.stderr).into_owned()),
        Err(e) => (-2, String::new(), e.to_string()),
    }
}

fn main() {
    let v: Vec<String> = std::env::args().collect();
    let (mut input, mut out, mut rates_dir, mut cli, mut cli_sample) = (String::new(), String::new(), String::new(), String::new(), 40usize);
    let mut i = 1;
    while i < v.len() {
        match v[i].as_str() {
            "--in" => { input = v[i + 1].clone(); i += 1; }
            "--out" => { out = v[i + 1].clone(); i += 1; }
            "--rates" => { rates_dir = v[i + 1].clone(); i += 1; }
            "--cli" => { cli = v[i + 1].clone(); i += 1; }
            "--cli-sample" => { cli_sample = v[i + 1].parse().unwrap_or(40); i += 1; }
            _ => {}
        }
        i += 1;
    }
    cgtv::silence_panics();
    let lines = cgtv::tlc::tagged_lines(&input, "FX").unwrap_or_else(|e| { eprintln!("cannot read {input}: {e}"); std::process::exit(2); });
    let recs: Vec<FxRec> = lines.iter().enumerate().map(|(i, l)| serde_json::from_str::<FxRec>(l).unwrap_or_else(|e| { eprintln!("bad FX line {i}: {e}"); std::process::exit(2); })).collect();
    let rates = PathBuf::from(&rates_dir);
    let mut cnt = Counters::default();
    let mut findings: Vec<Finding> = Vec::new();

    // ---- load phase, once per folder configuration
    let mut configs: Vec<Vec<FileRec>> = Vec::new();
    for r in &recs { if !configs.contains(&r.files) { configs.push(r.files.clone()); } }
    let bundled = load_default_cache().map_err(|e| e.to_string());
    let Ok(bundled) = bundled else { eprintln!("bundled cache does not load"); std::process::exit(2); };
    let mut loaded: Vec<Loaded> = Vec::new();
    for (ci, files) in configs.iter().enumerate() {
        let rfs: Vec<RateFile> = files.iter().filter(|f| f.ext == "xml").map(|f| RateFile {
            name: PathBuf::from(file_name(f, files)),
            modified: Some(UNIX_EPOCH + Duration::from_secs(1_600_000_000 + f.mtime * 1000)),
            xml: file_xml(f),
        }).collect();
        // directory order must not matter: feed the files in reverse
        let rfs: Vec<RateFile> = rfs.into_iter().rev().collect();
        let cache = guarded(move || load_cache_with_overrides(rfs).map_err(|e| e.to_string())).unwrap_or_else(|p| Err(format!("panic: {p}")));
        cnt.inc("folder_configs");
        // frame condition: every bundled key not listed by an accepted file is untouched; listed keys carry the file's rate
        if let Ok(c) = &cache {
            let mut listed: HashMap<(String, i32, u32), (u64, Decimal)> = HashMap::new();
            for f in files.iter().filter(|f| f.ext == "xml") {
                for (cur, sign) in &f.rates {
                    let r = Decimal::from_str(&synthetic_rate(f.id, cur, sign)).unwrap_or_default();
                    let e = listed.entry((cur.clone(), f.period.0, f.period.1)).or_insert((f.mtime, r));
                    if f.mtime >= e.0 { *e = (f.mtime, r); }
                }
            }
            for y in 2015..=2026 {
                for m in 1..=12u32 {
                    let Some(pairs) = bundled_month(&rates, y, m) else { continue };
                    for (code, rate) in pairs.clone() {
                        let Some(cur) = Currency::from_code(&code) else { continue };
                        cnt.inc("keys_checked");
                        let got = c.get(cur, y, m).map(|e| e.rate_per_gbp);
                        let want = listed.get(&(code.clone(), y, m)).map(|x| x.1).unwrap_or(rate);
                        // HMRC lists some currencies once per country, occasionally with different rates: any of them will do
                        let alternatives: Vec<Decimal> = pairs.iter().filter(|(c, _)| *c == code).map(|x| x.1).collect();
                        let acceptable = got == Some(want) || (!listed.contains_key(&(code.clone(), y, m)) && got.map(|g| alternatives.contains(&g)).unwrap_or(false));
                        if !acceptable {
                            findings.push(Finding { prop: "C08".into(), kind: "override_not_local".into(), case: ci,
                                detail: format!("folder config #{ci}: rate for {code} {y}-{m:02} is {:?}, expected {want} ({})", got, if listed.contains_key(&(code.clone(), y, m)) { "listed by a folder file" } else { "bundled, not listed by any folder file" }),
                                input: serde_json::to_string(files).unwrap_or_default(), data: json!({}) });
                        }
                        let b = bundled.get(cur, y, m).map(|e| e.rate_per_gbp);
                        if ci == 0 && !b.map(|g| alternatives.contains(&g)).unwrap_or(false) {
                            findings.push(Finding { prop: "C08".into(), kind: "bundled_rate".into(), case: 0,
                                detail: format!("bundled rate for {code} {y}-{m:02} is {:?}, the XML says {rate}", b), input: String::new(), data: json!({}) });
                        }
                    }
                }
            }
            // ... and the converse (`MissingIsFirst`: a key no table lists has NO rate, so the run fails): for every code that
            // occurs anywhere in the bundled tables and every bundled month, a rate is on offer only if that month's XML text
            // (or a folder file for that month) lists that very code
            {
                let mut all_codes: std::collections::BTreeSet<String> = std::collections::BTreeSet::new();
                for y in 2015..=2026 { for m in 1..=12u32 { if let Some(pairs) = bundled_month(&rates, y, m) { for (code, _) in pairs { all_codes.insert(code); } } } }
                for y in 2015..=2026 {
                    for m in 1..=12u32 {
                        let Some(pairs) = bundled_month(&rates, y, m) else { continue };
                        let here: std::collections::BTreeSet<&str> = pairs.iter().map(|(c, _)| c.as_str()).collect();
                        for code in &all_codes {
                            if here.contains(code.as_str()) || listed.contains_key(&(code.clone(), y, m)) { continue; }
                            let Some(cur) = Currency::from_code(code) else { continue };
                            cnt.inc("absent_keys_checked");
                            if let Some(e) = c.get(cur, y, m) {
                                findings.push(Finding { prop: "C08".into(), kind: "rate_invented".into(), case: ci,
                                    detail: format!("folder config #{ci}: a rate ({}) is on offer for {code} in {y}-{m:02}, but neither the HMRC table of that month nor a folder file lists {code}: the run must fail instead", e.rate_per_gbp),
                                    input: serde_json::to_string(files).unwrap_or_default(), data: json!({}) });
                            }
                        }
                    }
                }
            }
            for (k, (_, r)) in &listed {
                let Some(cur) = Currency::from_code(&k.0) else { continue };
                if c.get(cur, k.1, k.2).map(|e| e.rate_per_gbp) != Some(*r) {
                    findings.push(Finding { prop: "C08".into(), kind: "override_ignored".into(), case: ci,
                        detail: format!("folder config #{ci}: {} {}-{:02} should carry the folder rate {r}", k.0, k.1, k.2), input: serde_json::to_string(files).unwrap_or_default(), data: json!({}) });
                }
            }
        }
        loaded.push(Loaded { cache });
    }

    // ---- conversion is per amount: the order in which the lines come cannot matter.  Four USD/EUR lines in the SAME
    // calendar month of different years (and different months of one year), every one of the 24 line orders, against the
    // first order and against the GBP twin converted here from the bundled XML text
    if let Some(bundled) = configs.iter().position(|c| c.is_empty()).and_then(|i| loaded.get(i)).and_then(|l| l.cache.as_ref().ok()) {
        let d = |y, m, dd| NaiveDate::from_ymd_opt(y, m, dd).unwrap_or_default();
        let usd = |x: i64| CurrencyAmount::new(Decimal::new(x, 2), Currency::from_code("USD").unwrap_or(Currency::GBP));
        let eur = |x: i64| CurrencyAmount::new(Decimal::new(x, 2), Currency::from_code("EUR").unwrap_or(Currency::GBP));
        let probe_sets: Vec<Vec<Transaction>> = vec![
            vec![
            Transaction { date: d(2023, 2, 10), ticker: "AAA".into(), operation: Operation::Buy { amount: Decimal::from(10), price: usd(812), fees: eur(150) } },
            Transaction { date: d(2024, 2, 12), ticker: "AAA".into(), operation: Operation::Buy { amount: Decimal::from(4), price: usd(955), fees: usd(100) } },
            Transaction { date: d(2024, 3, 1), ticker: "AAA".into(), operation: Operation::Sell { amount: Decimal::from(6), price: usd(1234), fees: eur(75) } },
            Transaction { date: d(2025, 2, 3), ticker: "AAA".into(), operation: Operation::Sell { amount: Decimal::from(5), price: eur(1100), fees: usd(60) } },
            ],
            // months that collide under a careless period key: (Y, 11) / (Y+1, 1) and (Y, 12) / (Y+1, 2) for year * 10 + month
            vec![
            Transaction { date: d(2023, 11, 10), ticker: "AAA".into(), operation: Operation::Buy { amount: Decimal::from(10), price: usd(812), fees: usd(150) } },
            Transaction { date: d(2024, 1, 12), ticker: "AAA".into(), operation: Operation::Buy { amount: Decimal::from(4), price: usd(955), fees: usd(100) } },
            Transaction { date: d(2023, 12, 1), ticker: "BBB".into(), operation: Operation::Buy { amount: Decimal::from(6), price: eur(1234), fees: eur(75) } },
            Transaction { date: d(2024, 2, 3), ticker: "BBB".into(), operation: Operation::Sell { amount: Decimal::from(5), price: eur(1100), fees: eur(60) } },
            ],
            // ... and year + month: (2023, 3) / (2024, 2) / (2022, 4) / (2021, 5)
            vec![
            Transaction { date: d(2021, 5, 10), ticker: "AAA".into(), operation: Operation::Buy { amount: Decimal::from(10), price: usd(812), fees: usd(150) } },
            Transaction { date: d(2022, 4, 12), ticker: "AAA".into(), operation: Operation::Buy { amount: Decimal::from(4), price: usd(955), fees: usd(100) } },
            Transaction { date: d(2023, 3, 1), ticker: "AAA".into(), operation: Operation::Sell { amount: Decimal::from(6), price: usd(1234), fees: usd(75) } },
            Transaction { date: d(2024, 2, 3), ticker: "AAA".into(), operation: Operation::Sell { amount: Decimal::from(5), price: usd(1100), fees: usd(60) } },
            ],
        ];
        for lines in &probe_sets {
        let cfgp = full_config();
        let mut first: Option<(Vec<cgt_core::TaxYearSummary>, Vec<cgt_core::Section104Holding>)> = None;
        let mut perm = vec![0usize, 1, 2, 3];
        let mut all: Vec<Vec<usize>> = Vec::new();
        fn heap(k: usize, a: &mut Vec<usize>, out: &mut Vec<Vec<usize>>) { if k == 1 { out.push(a.clone()); return; } for i in 0..k { heap(k - 1, a, out); if k % 2 == 0 { a.swap(i, k - 1); } else { a.swap(0, k - 1); } } }
        heap(4, &mut perm, &mut all);
        for p in &all {
            let txs: Vec<Transaction> = p.iter().map(|i| lines[*i].clone()).collect();
            let t2 = txs.clone();
            let c2 = cfgp.clone();
            cnt.inc("executions");
            cnt.inc("fx_line_orders");
            match guarded(|| calculate(&t2, None, Some(bundled), &c2).map_err(|e| e.to_string())) {
                Ok(Ok(rep)) => {
                    let cur = (rep.tax_years.clone(), rep.holdings.clone());
                    match &first {
                        None => first = Some(cur),
                        Some(f0) => if *f0 != cur {
                            for pr in ["C06", "C08"] {
                                findings.push(Finding { prop: pr.into(), kind: "fx_line_order".into(), case: 0, detail: format!("the line order {:?} of a foreign-currency ledger changes the report (amounts of one currency in the same calendar month of different years)", p), input: to_dsl(&txs), data: json!({}) });
                            }
                            break;
                        }
                    }
                }
                other => { findings.push(Finding { prop: "C08".into(), kind: "convertible_refused".into(), case: 0, detail: format!("the order probe ledger is refused: {:?}", other.map(|r| r.map(|_| ()))), input: to_dsl(&txs), data: json!({}) }); break; }
            }
        }
        // ... and the first order against its GBP twin (each amount divided by the bundled rate of its own currency and month)
        let rate = |cur: &str, y: i32, m: u32| bundled_month(&rates, y, m).and_then(|v| v.into_iter().find(|(c, _)| c == cur).map(|x| x.1));
        let conv = |a: &CurrencyAmount, dt: NaiveDate| -> Option<CurrencyAmount> { use chrono::Datelike; Some(CurrencyAmount::new(a.amount / rate(a.code(), dt.year(), dt.month())?, Currency::GBP)) };
        let twin: Option<Vec<Transaction>> = lines.iter().map(|t| Some(Transaction { date: t.date, ticker: t.ticker.clone(), operation: match &t.operation {
            Operation::Buy { amount, price, fees } => Operation::Buy { amount: *amount, price: conv(price, t.date)?, fees: conv(fees, t.date)? },
            Operation::Sell { amount, price, fees } => Operation::Sell { amount: *amount, price: conv(price, t.date)?, fees: conv(fees, t.date)? },
            o => o.clone(),
        } })).collect();
        if let (Some(twin), Some(f0)) = (twin, &first) {
            let c3 = cfgp.clone();
            if let Ok(Ok(rep2)) = guarded(move || calculate(&twin, None, None, &c3).map_err(|e| e.to_string())) {
                if (rep2.tax_years.clone(), rep2.holdings.clone()) != *f0 {
                    findings.push(Finding { prop: "C08".into(), kind: "twin_differs".into(), case: 0, detail: "the order probe ledger and its GBP twin give different reports".into(), input: to_dsl(lines), data: json!({}) });
                }
            }
        }
    }
    }

    // ---- convert phase, every behaviour through the library
    let cfg = full_config();
    let rate_of = |rec: &FxRec, i: usize| -> Option<Decimal> {
        let f = &rec.fields[i];
        match rec.sources.get(i).copied() {
            Some(-1) => Some(Decimal::ONE),
            Some(0) => bundled_month(&rates, f.ym.0, f.ym.1)?.into_iter().find(|(c, _)| *c == f.cur).map(|x| x.1),
            Some(id) => {
                let file = rec.files.iter().find(|x| x.id == id)?;
                let sign = file.rates.iter().find(|(c, _)| *c == f.cur)?.1.clone();
                Decimal::from_str(&synthetic_rate(id, &f.cur, &sign)).ok()
            }
            None => None,
        }
    };
    let strip = |r: &TaxReport| (r.tax_years.clone(), r.holdings.clone());
    let mut cli_jobs: BTreeMap<usize, Vec<usize>> = BTreeMap::new();
    for (case_no, rec) in recs.iter().enumerate() {
        let ci = configs.iter().position(|c| *c == rec.files).unwrap_or(0);
        cli_jobs.entry(ci).or_default().push(case_no);
        let txs = ledger(rec, None);
        let input_text = format!("{}# folder: {}", to_dsl(&txs), serde_json::to_string(&rec.files).unwrap_or_default());
        let mut push = |kind: &str, detail: String| {
            let prop = if kind == "fx_cost_not_conserved" { "C03" } else if kind == "fx_net_proceeds" { "C04" } else if kind == "fx_event_amount" { "C11" } else { "C08" };
            findings.push(Finding { prop: prop.into(), kind: kind.into(), case: case_no, detail, input: input_text.clone(), data: json!({"expected": rec.result}) });
        };
        cnt.inc("cases");
        let kind = rec.result[0].as_str().unwrap_or("");
        match (&loaded[ci].cache, kind) {
            (Err(_), "rejected") => { cnt.inc("bad_folder_rejected"); continue; }
            (Err(e), _) => { push("good_folder_rejected", format!("rates folder refused although every file is consistent: {e}")); continue; }
            (Ok(_), "rejected") => { push("bad_file_accepted", format!("a rates file whose period disagrees with its name or with a non-positive rate was accepted (file #{})", rec.result[1])); continue; }
            _ => {}
        }
        let Ok(cache) = &loaded[ci].cache else { continue };
        let t2 = txs.clone();
        let c2 = cfg.clone();
        let res = guarded(|| calculate(&t2, None, Some(cache), &c2).map_err(|e| e.to_string()));
        cnt.inc("executions");
        match (res, kind) {
            (Err(p), _) => push("panic", format!("calculate panicked: {p}")),
            (Ok(Err(msg)), "missing") => {
                cnt.inc("missing_rate_refused");
                let cur = rec.result[1].as_str().unwrap_or("");
                let ym = format!("{:04}-{:02}", rec.result[2][0].as_i64().unwrap_or(0), rec.result[2][1].as_i64().unwrap_or(0));
                if !(msg.contains(cur) && msg.contains(&ym)) { push("missing_rate_message", format!("error does not name {cur} and {ym}: {msg}")); }
            }
            (Ok(Ok(_)), "missing") => push("missing_rate_accepted", format!("no rate exists for {} {:?}, yet a report was produced (silently treated as GBP or converted at another month's rate)", rec.result[1], rec.result[2])),
            (Ok(Err(msg)), _) => push("convertible_refused", format!("every needed rate exists, yet the run failed: {msg}")),
            (Ok(Ok(rep)), _) => {
                let mut conv = Vec::new();
                let mut okc = true;
                for i in 0..rec.fields.len() {
                    match rate_of(rec, i) { Some(r) => conv.push(amount_of(&rec.fields[i].what) / r), None => { okc = false; break; } }
                }
                if !okc { eprintln!("case {case_no}: cannot determine expected rates"); std::process::exit(2); }
                if rec.fields.iter().filter(|f| f.cur != "GBP").count() >= 2 { cnt.inc("multi_foreign_field"); }
                // C03 in foreign currency: legs + closing cost = quantity x price + fees, each converted at its own rate
                // ... plus what an accumulation adds and minus the net capital return (C11), each amount at its own rate
                let ev = rec.fields[2].what.as_str();
                let spent = Decimal::from(10) * conv[0] + conv[1] + match ev { "ac_total" => conv[2], "cr_total" => -(conv[2] - conv[3]), _ => Decimal::ZERO };
                let legs: Decimal = rep.tax_years.iter().flat_map(|y| y.disposals.iter()).flat_map(|d| d.matches.iter()).map(|m| m.allowable_cost).sum();
                let held: Decimal = rep.holdings.iter().map(|h| h.total_cost).sum();
                if (legs + held - spent).abs() > Decimal::new(1, 12) {
                    push("fx_cost_not_conserved", format!("legs + closing cost = {}, GBP expenditure (price and fees each at the rate of its own currency and month) = {spent}", legs + held));
                    if ev != "div_total" {
                        push("fx_event_amount", format!("legs + closing cost = {}; with the {} of 1 February valued at the rates of its own currencies it should be {spent}", legs + held, if ev == "cr_total" { "capital return (total less fees)" } else { "accumulation" }));
                    }
                }
                // C04 in foreign currency: net proceeds = gross proceeds - the sale's fees, each valued at its own rate
                let gross: Decimal = rep.tax_years.iter().flat_map(|y| y.disposals.iter()).map(|d| d.gross_proceeds).sum();
                let net: Decimal = rep.tax_years.iter().flat_map(|y| y.disposals.iter()).map(|d| d.proceeds).sum();
                if rep.tax_years.iter().any(|y| !y.disposals.is_empty()) && (gross - net - conv[5]).abs() > Decimal::new(1, 9) {
                    push("fx_net_proceeds", format!("gross proceeds {gross} - net proceeds {net} = {}, but the sale's fees are worth {} GBP at the rate of their own currency and month", gross - net, conv[5]));
                }
                let twin = ledger(rec, Some(&conv));
                let c3 = cfg.clone();
                let t3 = twin.clone();
                let r2 = guarded(move || calculate(&t3, None, None, &c3).map_err(|e| e.to_string()));
                cnt.inc("executions");
                match r2 {
                    Ok(Ok(rep2)) => {
                        if strip(&rep) != strip(&rep2) {
                            push("twin_differs", format!("foreign-currency ledger and its GBP twin (each amount divided by the rate of its own currency and month) give different reports; twin:\n{}", to_dsl(&twin)));
                        }
                    }
                    other => push("twin_failed", format!("GBP twin did not produce a report: {:?}", other.map(|x| x.map(|_| ())))),
                }
            }
        }
    }

    // ---- the same through the cgt-tool binary (read_fx_folder: extension filter, modification times)
    if !cli.is_empty() {
        let root = std::env::temp_dir().join(format!("cgtv_fx_{}", std::process::id()));
        let _ = std::fs::remove_dir_all(&root);
        for (ci, cases) in &cli_jobs {
            let dir = root.join(format!("cfg{ci}"));
            let _ = std::fs::create_dir_all(&dir);
            let years: String = (2014..=2040).map(|y| format!("\"{y}\" = 3\n")).collect();
            let _ = std::fs::write(dir.join("config.toml"), format!("[exemptions]\n{years}"));
            let folder = dir.join("rates");
            if std::fs::create_dir_all(&folder).is_err() { eprintln!("cannot create {folder:?}"); std::process::exit(2); }
            for f in &configs[*ci] {
                let p = folder.join(file_name(f, &configs[*ci]));
                let body = if f.ext == "xml" { file_bytes(f) } else { b"this is not xml".to_vec() };
                if std::fs::write(&p, body).is_err() { eprintln!("cannot write {p:?}"); std::process::exit(2); }
                if let Ok(fh) = std::fs::File::options().write(true).open(&p) {
                    let _ = fh.set_modified(UNIX_EPOCH + Duration::from_secs(1_600_000_000 + f.mtime * 1000));
                }
            }
            let step = (cases.len() / cli_sample.max(1)).max(1);
            let picked: Vec<usize> = cases.iter().step_by(step).take(cli_sample).copied().collect();
            // process starts dominate (each loads the bundled rates): run them on all cores
            let outs = cgtv::par::par_map(&picked, cgtv::par::threads(), |_, case_no| {
                let mut fs: Vec<Finding> = Vec::new();
                let mut runs = 1u64;
                let rec = &recs[*case_no];
                let kind = rec.result[0].as_str().unwrap_or("");
                let txs = ledger(rec, None);
                let text = to_dsl(&txs);
                let file = dir.join(format!("l{case_no}.cgt"));
                let _ = std::fs::write(&file, &text);
                let (rc, so, se) = run_cli(&cli, &dir, &["report", "--format", "json", "--fx-folder", "rates", file.to_str().unwrap_or("")]);
                let mut push = |kind: &str, detail: String| {
                    fs.push(Finding { prop: "C08".into(), kind: kind.into(), case: *case_no, detail, input: format!("{text}# folder: {}", serde_json::to_string(&rec.files).unwrap_or_default()), data: json!({"stderr": se.chars().take(400).collect::<String>()}) });
                };
                match kind {
                    "rejected" => { if rc == 0 { push("cli_bad_file_accepted", "cgt-tool accepted a rates folder with an inconsistent file".into()); } else if !so.trim().is_empty() { push("cli_partial_output", "output on stdout alongside a failure".into()); } }
                    "missing" => {
                        let cur = rec.result[1].as_str().unwrap_or("");
                        let ym = format!("{:04}-{:02}", rec.result[2][0].as_i64().unwrap_or(0), rec.result[2][1].as_i64().unwrap_or(0));
                        if rc == 0 { push("cli_missing_rate_accepted", format!("cgt-tool produced a report although {cur} {ym} has no rate")); }
                        else if !(se.contains(cur) && se.contains(&ym)) { push("cli_missing_rate_message", format!("error does not name {cur} and {ym}: {se}")); }
                    }
                    _ => {
                        if rc != 0 { push("cli_convertible_refused", format!("cgt-tool failed: {se}")); }
                        else {
                            let mut conv = Vec::new();
                            for i in 0..rec.fields.len() { conv.push(amount_of(&rec.fields[i].what) / rate_of(rec, i).unwrap_or(Decimal::ONE)); }
                            let twin = dir.join(format!("t{case_no}.cgt"));
                            let _ = std::fs::write(&twin, to_dsl(&ledger(rec, Some(&conv))));
                            let (rc2, so2, _) = run_cli(&cli, &dir, &["report", "--format", "json", twin.to_str().unwrap_or("")]);
                            runs += 1;
                            let a: serde_json::Value = cgtv::canon_numbers(&serde_json::from_str(&so).unwrap_or(json!(null)));
                            let b: serde_json::Value = cgtv::canon_numbers(&serde_json::from_str(&so2).unwrap_or(json!(null)));
                            if rc2 != 0 || a["tax_years"] != b["tax_years"] || a["holdings"] != b["holdings"] || a["tax_years"].is_null() {
                                push("cli_twin_differs", format!("cgt-tool report of the foreign ledger with --fx-folder differs from the report of its GBP twin (rc {rc2}): {} VS {}", a["tax_years"], b["tax_years"]));
                            }
                        }
                    }
                }
                (fs, runs)
            });
            for (fs, runs) in outs { findings.extend(fs); cnt.add("cli_runs", runs); }
        }
        let _ = std::fs::remove_dir_all(&root);
    }

    let mut w = std::io::BufWriter::new(std::fs::File::create(&out).unwrap_or_else(|e| { eprintln!("cannot write {out}: {e}"); std::process::exit(2); }));
    for f in &findings { let _ = writeln!(w, "{}", serde_json::to_string(f).unwrap_or_default()); }
    let sample: Vec<String> = recs.iter().step_by((recs.len() / 2).max(1)).take(2).map(|r| format!("{}# folder: {}", to_dsl(&ledger(r, None)), serde_json::to_string(&r.files).unwrap_or_default())).collect();
    println!("{}", json!({"records": recs.len(), "findings": findings.len(), "counters": cnt.map, "samples": sample}));
}
