//! Replays MC_Lines behaviours (LINES records: transaction lines IN THEIR ORDER plus the exact outcome of the
//! line-level machine Lines.tla) against cgt_core::calculator::calculate.
//!
//! The machine is deterministic and shaped like the code (stable sort, adjacent merge, same-day fold of purchases,
//! flat line indices, one sale per SELL line), so everything is compared exactly: acceptance, the security and date
//! an error names, the sequence of legs of every disposal (rule, acquisition date, quantity, cost, gain), disposal
//! proceeds, closing pools and the per-lot spread of every cost event recorded by the hooks.
//!
//! usage: replay_lines --in TLC_LOG --out FINDINGS.ndjson [--bases K]

use cgt_core::calculator::calculate;
use cgt_core::{Currency, CurrencyAmount, Operation, TaxReport, Transaction};
use cgtv::ledger::{base_dates, full_config, to_dsl};
use cgtv::rat::{Rat, tol, tol_proceeds};
use cgtv::summary::rule_name;
use cgtv::{Counters, Finding, guarded};
use chrono::{Duration, NaiveDate};
use rust_decimal::Decimal;
use serde::Deserialize;
use serde_json::json;
use std::collections::{BTreeMap, HashMap};
use std::io::Write;

#[derive(Debug, Clone, Deserialize)]
struct Line(usize, String, String, Rat, Rat, Rat);
#[derive(Debug, Clone, Deserialize)]
struct LLeg(String, usize, String, usize, Rat, Rat, Rat, Rat, Rat);
#[derive(Debug, Clone, Deserialize)]
struct LRec {
    days: Vec<i64>,
    secs: Vec<String>,
    lines: Vec<Line>,
    status: String,
    err: serde_json::Value,
    legs: Vec<LLeg>,
    pool: Vec<(Rat, Rat)>,
    /// dist[sec][event day][acq day]
    dist: Vec<Vec<Vec<Rat>>>,
}

fn gbp(x: Rat) -> CurrencyAmount {
    CurrencyAmount::new(x.to_decimal(), Currency::GBP)
}

fn render(rec: &LRec, base: NaiveDate) -> Vec<Transaction> {
    rec.lines
        .iter()
        .map(|l| {
            let date = base + Duration::days(rec.days[l.0 - 1]);
            let operation = match l.2.as_str() {
                "BUY" => Operation::Buy { amount: l.3.to_decimal(), price: gbp(l.4), fees: gbp(l.5) },
                "SELL" => Operation::Sell { amount: l.3.to_decimal(), price: gbp(l.4), fees: gbp(l.5) },
                "SPLIT" => {
                    if l.3.n >= l.3.d {
                        Operation::Split { ratio: l.3.to_decimal() }
                    } else {
                        Operation::Unsplit { ratio: Rat::new(l.3.d, l.3.n).to_decimal() }
                    }
                }
                "CAPRETURN" => Operation::CapReturn { amount: Decimal::ONE, total_value: gbp(l.4), fees: gbp(l.5) },
                "ACC" => Operation::Accumulation { amount: Decimal::ONE, total_value: gbp(l.4), tax_paid: gbp(Rat::new(1, 4)) },
                _ => Operation::Dividend { total_value: gbp(l.4), tax_paid: gbp(Rat::ZERO) },
            };
            Transaction { date, ticker: l.1.clone(), operation }
        })
        .collect()
}

/// The ledger's lines with 72 lines of the unrelated security ZPAD interleaved (see the call site).
fn pad(rec: &LRec, txs: Vec<Transaction>, base: NaiveDate) -> Vec<Transaction> {
    let used: std::collections::BTreeSet<i64> = rec.days.iter().copied().collect();
    let hi = rec.days.iter().copied().max().unwrap_or(0);
    let mut offs: Vec<i64> = Vec::new();
    let mut k = -12i64;
    while offs.len() < 72 { if !used.contains(&k) { offs.push(k); } k += 1; if k > hi + 400 { break; } }
    let one = |x: i64| CurrencyAmount::new(Decimal::from(x), Currency::GBP);
    let pads: Vec<Transaction> = offs.iter().enumerate().map(|(j, o)| {
        let operation = match j {
            30 => Operation::Split { ratio: Decimal::from(2) },
            45 => Operation::Dividend { total_value: one(3), tax_paid: one(0) },
            _ => Operation::Buy { amount: Decimal::from(1 + (j % 3) as i64), price: one(2 + (j % 5) as i64), fees: one((j % 2) as i64) },
        };
        Transaction { date: base + Duration::days(*o), ticker: "ZPAD".into(), operation }
    }).collect();
    // interleave: pad line j goes in front of ledger line (j * (n + 1) / 72); the rest go last; pad order itself is scrambled
    let n = txs.len();
    let mut out: Vec<Transaction> = Vec::with_capacity(n + pads.len());
    let mut order: Vec<usize> = (0..pads.len()).collect();
    order.sort_by_key(|j| (j * 37) % 72);
    let mut pi = 0usize;
    for (i, t) in txs.into_iter().enumerate() {
        while pi < order.len() && pi * (n + 1) / 72 <= i { out.push(pads[order[pi]].clone()); pi += 1; }
        out.push(t);
    }
    while pi < order.len() { out.push(pads[order[pi]].clone()); pi += 1; }
    out
}

fn main() {
    let v: Vec<String> = std::env::args().collect();
    let (mut input, mut out, mut nbases) = (String::new(), String::new(), 1usize);
    let (mut cli, mut cli_every): (Option<String>, usize) = (None, 25);
    let mut pad_every = 0usize;
    let mut i = 1;
    while i < v.len() {
        match v[i].as_str() {
            "--in" => { input = v[i + 1].clone(); i += 1; }
            "--out" => { out = v[i + 1].clone(); i += 1; }
            "--bases" => { nbases = v[i + 1].parse().unwrap_or(1); i += 1; }
            "--cli" => { cli = Some(v[i + 1].clone()); i += 1; }
            "--cli-every" => { cli_every = v[i + 1].parse().unwrap_or(25).max(1); i += 1; }
            "--pad-every" => { pad_every = v[i + 1].parse().unwrap_or(0); i += 1; }
            _ => {}
        }
        i += 1;
    }
    cgtv::silence_panics();
    let lines = cgtv::tlc::tagged_lines(&input, "LINES").unwrap_or_else(|e| {
        eprintln!("cannot read {input}: {e}");
        std::process::exit(2);
    });
    let recs: Vec<LRec> = cgtv::par::par_map(&lines, cgtv::par::threads(), |i, l| match serde_json::from_str::<LRec>(l) {
        Ok(r) => r,
        Err(e) => {
            eprintln!("bad LINES record {i}: {e}: {}", &l[..l.len().min(300)]);
            std::process::exit(2);
        }
    });
    drop(lines);
    let bases: Vec<NaiveDate> = base_dates().into_iter().take(nbases.max(1)).collect();
    let config = full_config();
    let results = cgtv::par::par_map(&recs, cgtv::par::threads(), |case_no, rec| {
        let mut cnt = Counters::default();
        let mut findings: Vec<Finding> = Vec::new();
        cnt.inc("cases");
        let multi_sell = {
            let mut seen: HashMap<(usize, &str), usize> = HashMap::new();
            for l in rec.lines.iter().filter(|l| l.2 == "SELL") { *seen.entry((l.0, l.1.as_str())).or_default() += 1; }
            seen.values().any(|n| *n > 1)
        };
        if multi_sell { cnt.inc("several_sell_lines_one_day"); }
        if rec.legs.iter().any(|l| l.2 == "BedAndBreakfast") { cnt.inc("with_bnb"); }
        if rec.lines.iter().any(|l| l.2 == "SPLIT") { cnt.inc("with_splits"); }
        if rec.lines.iter().any(|l| l.2 == "CAPRETURN" || l.2 == "ACC") { cnt.inc("with_events"); }
        if rec.lines.iter().map(|l| l.1.as_str()).collect::<std::collections::BTreeSet<_>>().len() > 1 { cnt.inc("two_securities"); }
        // every pad_every-th behaviour is replayed once more inside a LONG file: 72 lines of an unrelated security
        // (purchases, a split, a dividend; dated on days the ledger does not use, before, between and after its own
        // days) are interleaved with the ledger's lines.  Securities are independent (OthersUntouched / ProjectLaw on the
        // specification, the two-security alphabets of MC_Lines), so the prediction for the ledger's own securities is
        // unchanged -- but every size threshold of the code (line count, lot count, index / cache / fast path) is crossed.
        let mut variants: Vec<(NaiveDate, bool)> = bases.iter().map(|b| (*b, false)).collect();
        if pad_every > 0 && case_no % pad_every == 0 { variants.push((bases[0], true)); }
        for (base, padded) in &variants {
            let padded = *padded;
            let txs = if padded { cnt.inc("padded_runs"); pad(rec, render(rec, *base), *base) } else { render(rec, *base) };
            let date_of = |d: usize| *base + Duration::days(rec.days[d - 1]);
            let mut push = |prop: &str, kind: &str, detail: String| {
                findings.push(Finding { prop: prop.into(), kind: kind.into(), case: case_no, detail, input: to_dsl(&txs), data: json!({}) });
            };
            let cfg = &config;
            let t2 = txs.clone();
            cgt_core::verif::start();
            let res: Result<Result<TaxReport, String>, String> = guarded(move || calculate(&t2, None, None, cfg).map_err(|e| e.to_string()));
            let events = cgt_core::verif::finish();
            cnt.inc("executions");
            // the same lines, in the same order, dealt over TWO input files of the cgt-tool binary (first half, second half):
            // `report --format json a.cgt b.cgt` must print the library's report for the concatenation
            if *base == bases[0] && !padded && case_no % cli_every == 0 {
                if let Some(cli) = &cli {
                    let dir = std::env::temp_dir().join(format!("cgtv_lines_{}_{}", std::process::id(), case_no));
                    let _ = std::fs::create_dir_all(&dir);
                    let h = txs.len() / 2;
                    let _ = std::fs::write(dir.join("a.cgt"), to_dsl(&txs[..h]));
                    let _ = std::fs::write(dir.join("b.cgt"), to_dsl(&txs[h..]));
                    let o = std::process::Command::new(cli).args(["report", "--format", "json", "a.cgt", "b.cgt"]).current_dir(&dir).env("HOME", &dir).output();
                    let _ = std::fs::remove_dir_all(&dir);
                    cnt.inc("cli_runs");
                    match (o, &res) {
                        (Err(e), _) => { eprintln!("cannot run {cli}: {e}"); std::process::exit(2); }
                        (Ok(o), Ok(Ok(rep))) => {
                            let strip = |mut v: serde_json::Value| { if let Some(ys) = v["tax_years"].as_array_mut() { for y in ys { if let Some(m) = y.as_object_mut() { m.remove("exempt_amount"); } } } v };
                            let want = strip(cgtv::canon_numbers(&serde_json::to_value(rep).unwrap_or(json!(null))));
                            let got = serde_json::from_slice::<serde_json::Value>(&o.stdout).map(|v| strip(cgtv::canon_numbers(&v))).unwrap_or(json!("<not json>"));
                            if !o.status.success() || got != want {
                                for pr in ["C06", "C01"] {
                                    push(pr, "cli_report_differs", format!("cgt-tool report --format json a.cgt b.cgt (exit {:?}) does not print the library's report for the same lines in the same order: {} vs {}", o.status.code(),
                                        got.to_string().chars().take(300).collect::<String>(), want.to_string().chars().take(300).collect::<String>()));
                                }
                            }
                        }
                        (Ok(o), Ok(Err(_))) => {
                            if o.status.success() || !o.stdout.iter().all(|b| b.is_ascii_whitespace()) {
                                push("C05", "cli_report_on_refused_ledger", format!("the library refuses the ledger, yet cgt-tool exits {:?} with {} bytes on standard output", o.status.code(), o.stdout.len()));
                            }
                        }
                        _ => {}
                    }
                }
            }
            match (&res, rec.status.as_str()) {
                (Err(p), _) => push("C15", "panic", format!("calculate panicked: {p}")),
                (Ok(Err(msg)), "ok") => push("C05", "covered_refused", format!("the line-level model accepts this ledger, the code refuses it: {msg}")),
                (Ok(Err(msg)), "refused") => {
                    cnt.inc("unabsorbable_refused");
                    if !msg.contains("S122") { push("C11", "refusal_not_s122", format!("capital return refused without citing s122: {msg}")); }
                }
                (Ok(Err(msg)), _) => {
                    cnt.inc("uncovered_refused");
                    let sec = rec.err.get(0).and_then(|x| x.as_str()).unwrap_or("?");
                    let d = rec.err.get(1).and_then(|x| x.as_u64()).unwrap_or(1) as usize;
                    let date = date_of(d).format("%Y-%m-%d").to_string();
                    if msg.contains("S122") { push("C05", "wrong_error", format!("uncovered sale of {sec} on {date} expected, the code cites s122 instead: {msg}")); }
                    else if !(msg.contains(sec) && msg.contains(&date)) { push("C05", "wrong_error", format!("error does not name {sec} on {date}: {msg}")); }
                }
                (Ok(Ok(_)), "refused") => push("C11", "unabsorbable_accepted", "the line-level model refuses this capital return (s122), the code accepts it".into()),
                (Ok(Ok(_)), "error") => {
                    let sec = rec.err.get(0).and_then(|x| x.as_str()).unwrap_or("?");
                    let d = rec.err.get(1).and_then(|x| x.as_u64()).unwrap_or(1) as usize;
                    push("C05", "uncovered_accepted", format!("sale of {sec} on {} is not covered by shares held, yet a report was produced", date_of(d)));
                }
                (Ok(Ok(report)), _) => {
                    cnt.inc("covered");
                    // expected legs per disposal, in production order
                    let mut want: BTreeMap<(String, NaiveDate), Vec<&LLeg>> = BTreeMap::new();
                    for g in &rec.legs { want.entry((g.0.clone(), date_of(g.1))).or_default().push(g); }
                    let mut got: BTreeMap<(String, NaiveDate), Vec<&cgt_core::Disposal>> = BTreeMap::new();
                    for y in &report.tax_years { for d in &y.disposals { got.entry((d.ticker.clone(), d.date)).or_default().push(d); } }
                    for (k, ds) in &got {
                        if ds.len() > 1 { push("C01", "duplicate_disposal", format!("{} on {} is reported as {} disposals", k.0, k.1, ds.len())); }
                        if !want.contains_key(k) { push("C01", "leg_identification", format!("unexpected disposal of {} on {}", k.0, k.1)); }
                    }
                    for (k, ws) in &want {
                        let Some(ds) = got.get(k) else { push("C01", "leg_identification", format!("disposal of {} on {} is missing from the report", k.0, k.1)); continue; };
                        let ms: Vec<&cgt_core::Match> = ds.iter().flat_map(|d| d.matches.iter()).collect();
                        if ms.len() > 1 { cnt.inc("multi_leg_disposals"); }
                        if ms.len() != ws.len() {
                            push("C01", "leg_identification", format!("{} {}: {} legs reported, the line-level model has {}: {:?}", k.0, k.1, ms.len(), ws.len(),
                                ms.iter().map(|m| format!("{} {}", rule_name(&m.rule), m.quantity)).collect::<Vec<_>>()));
                            continue;
                        }
                        for (m, w) in ms.iter().zip(ws.iter()) {
                            let wacq = if w.2 == "Section104" { None } else { Some(date_of(w.3)) };
                            let macq = if rule_name(&m.rule) == "Section104" { None } else { m.acquisition_date };
                            if rule_name(&m.rule) != w.2 || macq != wacq || !w.4.close_to(m.quantity, tol()) {
                                push("C01", "leg_identification", format!("{} {}: leg {} {:?} qty {} where the line-level model has {} {:?} qty {}", k.0, k.1, rule_name(&m.rule), macq, m.quantity, w.2, wacq, w.4.show()));
                            } else {
                                if !w.5.close_to(m.allowable_cost, tol()) {
                                    let p = if rec.lines.iter().any(|l| l.2 == "CAPRETURN" || l.2 == "ACC") { "C11" } else { "C01" };
                                    push(p, "leg_value", format!("{} {}: leg {} {:?}: cost {} expected {}", k.0, k.1, w.2, wacq, m.allowable_cost, w.5.show()));
                                }
                                if !w.8.close_to(m.gain_or_loss, tol_proceeds()) {
                                    push("C01", "leg_value", format!("{} {}: leg {} {:?}: gain {} expected {}", k.0, k.1, w.2, wacq, m.gain_or_loss, w.8.show()));
                                }
                            }
                        }
                        let (mut gross, mut net, mut q) = (Rat::ZERO, Rat::ZERO, Rat::ZERO);
                        for w in ws { gross = gross.add(w.6); net = net.add(w.7); q = q.add(w.4); }
                        let (dg, dn, dq) = ds.iter().fold((Decimal::ZERO, Decimal::ZERO, Decimal::ZERO), |a, d| (a.0 + d.gross_proceeds, a.1 + d.proceeds, a.2 + d.quantity));
                        if !gross.close_to(dg, tol_proceeds()) { push("C04", "disposal_totals", format!("{} {}: gross proceeds {} expected {}", k.0, k.1, dg, gross.show())); }
                        if !net.close_to(dn, tol_proceeds()) { push("C04", "disposal_totals", format!("{} {}: net proceeds {} expected {}", k.0, k.1, dn, net.show())); }
                        if !q.close_to(dq, tol()) { push("C02", "legs_sum", format!("{} {}: quantity {} expected {}", k.0, k.1, dq, q.show())); }
                    }
                    // closing pools
                    for (si, s) in rec.secs.iter().enumerate() {
                        let h = report.holdings.iter().find(|h| &h.ticker == s);
                        let (hq, hc) = h.map(|h| (h.quantity, h.total_cost)).unwrap_or((Decimal::ZERO, Decimal::ZERO));
                        let (wq, wc) = rec.pool[si];
                        if !wq.close_to(hq, tol()) { push("C02", "closing_holding", format!("{s}: closing holding {hq}, expected {}", wq.show())); }
                        else if !wc.close_to(hc, tol()) { push("C03", "closing_cost", format!("{s}: closing cost {hc}, expected {}", wc.show())); }
                    }
                    // per-lot spread of every cost event
                    let n = rec.days.len();
                    let didx: HashMap<NaiveDate, usize> = (1..=n).map(|d| (date_of(d), d)).collect();
                    for (si, s) in rec.secs.iter().enumerate() {
                        let mut obs = vec![vec![Decimal::ZERO; n]; n];
                        for e in events.iter().filter(|e| e.kind == "CostEvent" && &e.ticker == s) {
                            if let Some(ed) = didx.get(&e.date) {
                                for (ld, delta) in &e.lots { if let Some(a) = didx.get(ld) { obs[*ed - 1][*a - 1] += *delta; } }
                            }
                        }
                        'outer: for e in 0..n { for a in 0..n {
                            if !rec.dist[si][e][a].close_to(obs[e][a], tol()) {
                                push("C11", "apportionment_differs", format!("{s}: cost events of day#{} put {} on the acquisition of day#{}; the line-level model puts {}", e + 1, obs[e][a], a + 1, rec.dist[si][e][a].show()));
                                break 'outer;
                            }
                        } }
                    }
                }
            }
        }
        (findings, cnt)
    });
    let mut cnt = Counters::default();
    let mut w = std::io::BufWriter::new(std::fs::File::create(&out).unwrap_or_else(|e| {
        eprintln!("cannot write {out}: {e}");
        std::process::exit(2);
    }));
    let mut nf = 0usize;
    for (fs, c) in &results {
        cnt.merge(c);
        for f in fs {
            nf += 1;
            let _ = writeln!(w, "{}", serde_json::to_string(f).unwrap_or_default());
        }
    }
    let sample: Vec<String> = recs.iter().step_by((recs.len() / 3).max(1)).take(3).map(|r| to_dsl(&render(r, bases[0]))).collect();
    println!("{}", json!({"records": recs.len(), "cases": recs.len(), "findings": nf, "observations": 0, "counters": cnt.map, "samples": sample}));
}
