//! Minimal data-parallel map over indexed items with std threads.

pub fn par_map<T: Sync, R: Send>(items: &[T], threads: usize, f: impl Fn(usize, &T) -> R + Sync) -> Vec<R> {
    let n = items.len();
    let threads = threads.max(1).min(n.max(1));
    let chunk = n.div_ceil(threads).max(1);
    let mut out: Vec<Vec<R>> = Vec::new();
    std::thread::scope(|sc| {
        let mut hs = Vec::new();
        for (ci, ch) in items.chunks(chunk).enumerate() {
            let f = &f;
            hs.push(sc.spawn(move || {
                ch.iter().enumerate().map(|(i, x)| f(ci * chunk + i, x)).collect::<Vec<R>>()
            }));
        }
        for h in hs {
            match h.join() {
                Ok(v) => out.push(v),
                Err(_) => panic!("worker thread panicked"),
            }
        }
    });
    out.into_iter().flatten().collect()
}

pub fn threads() -> usize {
    std::env::var("VERIF_THREADS").ok().and_then(|s| s.parse().ok()).unwrap_or(16)
}
