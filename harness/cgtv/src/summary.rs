//! Order-insensitive summaries of a TaxReport, for implementation-vs-implementation laws.

use cgt_core::{MatchRule, TaxReport};
use chrono::NaiveDate;
use rust_decimal::Decimal;
use std::collections::BTreeMap;

pub fn rule_name(r: &MatchRule) -> &'static str {
    match r {
        MatchRule::SameDay => "SameDay",
        MatchRule::BedAndBreakfast => "BedAndBreakfast",
        MatchRule::Section104 => "Section104",
    }
}

#[derive(Debug, Clone, Default, PartialEq)]
pub struct LegSum {
    pub q: Decimal,
    pub cost: Decimal,
    pub gain: Decimal,
}

#[derive(Debug, Clone, Default, PartialEq)]
pub struct DispSum {
    pub q: Decimal,
    pub gross: Decimal,
    pub net: Decimal,
    pub cost: Decimal,
    pub gain: Decimal,
    pub legs: BTreeMap<(String, Option<NaiveDate>), LegSum>,
    /// how many Disposal records the report holds for this (security, date): must be one
    pub entries: usize,
}

#[derive(Debug, Clone, Default, PartialEq)]
pub struct YearSum {
    pub gain: Decimal,
    pub loss: Decimal,
    pub net: Decimal,
    pub exempt: Decimal,
    pub div_income: Decimal,
    pub div_tax: Decimal,
    pub count: usize,
}

#[derive(Debug, Clone, Default, PartialEq)]
pub struct RepSum {
    pub disposals: BTreeMap<(String, NaiveDate), DispSum>,
    pub holdings: BTreeMap<String, (Decimal, Decimal)>,
    pub years: BTreeMap<u16, YearSum>,
    /// disposals in the order the report lists them
    pub order: Vec<(String, NaiveDate)>,
}

pub fn summarize(r: &TaxReport, skip_ticker: Option<&str>) -> RepSum {
    let mut s = RepSum::default();
    for y in &r.tax_years {
        let mut ys = YearSum {
            gain: y.total_gain,
            loss: y.total_loss,
            net: y.net_gain,
            exempt: y.exempt_amount,
            div_income: y.dividend_income,
            div_tax: y.dividend_tax_paid,
            count: 0,
        };
        for d in &y.disposals {
            if Some(d.ticker.as_str()) == skip_ticker {
                continue;
            }
            ys.count += 1;
            s.order.push((d.ticker.clone(), d.date));
            let e = s.disposals.entry((d.ticker.clone(), d.date)).or_default();
            e.entries += 1;
            e.q += d.quantity;
            e.gross += d.gross_proceeds;
            e.net += d.proceeds;
            for m in &d.matches {
                e.cost += m.allowable_cost;
                e.gain += m.gain_or_loss;
                let acq = if m.rule == MatchRule::Section104 { None } else { m.acquisition_date };
                let l = e.legs.entry((rule_name(&m.rule).to_string(), acq)).or_default();
                l.q += m.quantity;
                l.cost += m.allowable_cost;
                l.gain += m.gain_or_loss;
            }
        }
        s.years.insert(y.period.start_year(), ys);
    }
    for h in &r.holdings {
        if Some(h.ticker.as_str()) == skip_ticker {
            continue;
        }
        s.holdings.insert(h.ticker.clone(), (h.quantity, h.total_cost));
    }
    s
}

fn near(a: Decimal, b: Decimal, tol: Decimal) -> bool {
    (a - b).abs() <= tol
}

/// Differences between two summaries.  `deep` diffs are structural (rule, quantity, cost,
/// disposal totals, holdings); `shallow` diffs are only the per-leg split of a disposal's gain.
#[derive(Debug, Default)]
pub struct Diff {
    pub deep: Vec<String>,
    pub shallow: Vec<String>,
}

pub fn compare(a: &RepSum, b: &RepSum, tol: Decimal, years: bool) -> Diff {
    let mut d = Diff::default();
    for (k, x) in &a.disposals {
        match b.disposals.get(k) {
            None => d.deep.push(format!("disposal {} {} only in first", k.0, k.1)),
            Some(y) => {
                if x.entries != y.entries { d.deep.push(format!("{} {}: reported as {} vs {} separate disposals", k.0, k.1, x.entries, y.entries)); }
                if !near(x.q, y.q, tol) { d.deep.push(format!("{} {}: quantity {} vs {}", k.0, k.1, x.q, y.q)); }
                if !near(x.gross, y.gross, tol) { d.deep.push(format!("{} {}: gross proceeds {} vs {}", k.0, k.1, x.gross, y.gross)); }
                if !near(x.net, y.net, tol) { d.deep.push(format!("{} {}: net proceeds {} vs {}", k.0, k.1, x.net, y.net)); }
                if !near(x.cost, y.cost, tol) { d.deep.push(format!("{} {}: allowable cost {} vs {}", k.0, k.1, x.cost, y.cost)); }
                if !near(x.gain, y.gain, tol) { d.deep.push(format!("{} {}: gain {} vs {}", k.0, k.1, x.gain, y.gain)); }
                for (lk, lx) in &x.legs {
                    match y.legs.get(lk) {
                        // a leg of less than the tolerance (decimal residue of a non-terminating split ratio) is no leg
                        None => if lx.q.abs() > tol { d.deep.push(format!("{} {}: leg {} {:?} only in first", k.0, k.1, lk.0, lk.1)) },
                        Some(ly) => {
                            if !near(lx.q, ly.q, tol) { d.deep.push(format!("{} {}: leg {} {:?} quantity {} vs {}", k.0, k.1, lk.0, lk.1, lx.q, ly.q)); }
                            if !near(lx.cost, ly.cost, tol) { d.deep.push(format!("{} {}: leg {} {:?} cost {} vs {}", k.0, k.1, lk.0, lk.1, lx.cost, ly.cost)); }
                            if !near(lx.gain, ly.gain, tol) { d.shallow.push(format!("{} {}: leg {} {:?} gain {} vs {}", k.0, k.1, lk.0, lk.1, lx.gain, ly.gain)); }
                        }
                    }
                }
                for lk in y.legs.keys() {
                    if !x.legs.contains_key(lk) && y.legs[lk].q.abs() > tol { d.deep.push(format!("{} {}: leg {} {:?} only in second", k.0, k.1, lk.0, lk.1)); }
                }
            }
        }
    }
    for k in b.disposals.keys() {
        if !a.disposals.contains_key(k) { d.deep.push(format!("disposal {} {} only in second", k.0, k.1)); }
    }
    // a zero holding and an absent holding are the same thing
    let zero = (Decimal::ZERO, Decimal::ZERO);
    let keys: std::collections::BTreeSet<&String> = a.holdings.keys().chain(b.holdings.keys()).collect();
    for k in keys {
        let x = a.holdings.get(k).unwrap_or(&zero);
        let y = b.holdings.get(k).unwrap_or(&zero);
        if !near(x.0, y.0, tol) { d.deep.push(format!("holding {k}: quantity {} vs {}", x.0, y.0)); }
        if !near(x.1, y.1, tol) { d.deep.push(format!("holding {k}: cost {} vs {}", x.1, y.1)); }
    }
    if years && a.disposals.len() == b.disposals.len() && a.order != b.order && d.deep.is_empty() {
        d.deep.push(format!("disposals are listed in a different order: {:?} vs {:?}", a.order, b.order));
    }
    if years {
        for (k, x) in &a.years {
            match b.years.get(k) {
                None => d.deep.push(format!("tax year {k} only in first")),
                Some(y) => {
                    if !near(x.gain, y.gain, tol) || !near(x.loss, y.loss, tol) || !near(x.net, y.net, tol) {
                        d.deep.push(format!("tax year {k}: totals {}/{}/{} vs {}/{}/{}", x.gain, x.loss, x.net, y.gain, y.loss, y.net));
                    }
                    if x.count != y.count { d.deep.push(format!("tax year {k}: {} vs {} disposals", x.count, y.count)); }
                    if !near(x.div_income, y.div_income, tol) || !near(x.div_tax, y.div_tax, tol) {
                        d.deep.push(format!("tax year {k}: dividends {}/{} vs {}/{}", x.div_income, x.div_tax, y.div_income, y.div_tax));
                    }
                }
            }
        }
        for k in b.years.keys() {
            if !a.years.contains_key(k) { d.deep.push(format!("tax year {k} only in second")); }
        }
    }
    d
}
