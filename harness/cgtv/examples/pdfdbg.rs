use cgt_core::*;
use rust_decimal::Decimal;
fn main() {
    let ks: Vec<i64> = std::env::args().skip(1).filter_map(|a| a.parse().ok()).collect();
    let mut years = vec![];
    for (i, k) in ks.iter().enumerate() {
        let v = Decimal::new(*k, 3);
        years.push(TaxYearSummary { period: TaxPeriod::new(2000 + i as u16).unwrap(), disposals: vec![Disposal { date: chrono::NaiveDate::from_ymd_opt(2000 + i as i32, 6, 1).unwrap(), ticker: "AAA".into(), quantity: Decimal::from(4), gross_proceeds: Decimal::from(50000) + v, proceeds: Decimal::from(50000) + v, matches: vec![Match { rule: MatchRule::Section104, quantity: Decimal::from(4), allowable_cost: Decimal::from(50000), gain_or_loss: v, acquisition_date: None }] }], total_gain: v, total_loss: Decimal::ZERO, net_gain: v, exempt_amount: Decimal::from(3000), dividend_income: Decimal::ZERO, dividend_tax_paid: Decimal::ZERO });
    }
    let r = TaxReport { tax_years: years, holdings: vec![Section104Holding { ticker: "AAA".into(), quantity: Decimal::new(8125, 3), total_cost: Decimal::new(1234565, 3) }], transactions: vec![] };
    println!("{}", cgt_formatter_plain::format(&r));
    let runs = cgt_formatter_pdf::verif_text_runs(&r).unwrap();
    println!("{}", runs.join(" | "));
}
