"""Per-property check definitions: which model families are run and how their findings are attributed."""
import json, os
from . import common
from .cli import cli_family
from .mcp import mcp_check
from .det import det_check
from .cgt import long_family, trace_family, cgt_family, law_family, report_family, calendar_family, fx_family, dsl_family, misc_family, format_family, schwab_family, awards_family, combine, fam_list


def c01(tier, seed):
    r = _c01(tier, seed)
    m = mcp_check(tier, seed)      # explain_matching re-derives the legs of a disposal: same rules, same legs
    r['findings'] += [f for f in m['findings'] if f['prop'] == 'C01']
    r['coverage']['mcp_sessions'] = m['coverage'].get('sessions', 0)
    r['coverage']['states'] += m['coverage']['states']
    r['coverage']['transitions'] += m['coverage']['transitions']
    return r


def _c01(tier, seed):
    return combine(fam_list(tier, ['core_q', 'edge_q', 'frac_q', 'split_q', 'split5_q', 'split2_q', 'order_q', 'two_q', 'two_split_q', 'two_fills_q', 'matcher_q', 'lines_q', 'lines4_q', 'lines_splits_q', 'lines_files_q', 'lines_resv_q'], ['core_t', 'split_t', 'sim_t', 'matcher_t', 'matcher_sim_t', 'lines_t', 'lines5_t', 'lines_files_t']) + [trace_family(tier, seed), long_family(tier, seed)], 'multi_leg_disposals',
                   'every cell ledger of the family (TLC-enumerated) x base dates; non-trivial = ledgers with a disposal '
                   'identified by two or more legs')


def c02(tier, seed):
    return combine(fam_list(tier, ['core_q', 'frac_q', 'split_q', 'split5_q', 'split2_q', 'two_split_q', 'lines_q', 'lines_splits_q'], ['core_t', 'split_t', 'events_q', 'sim_t', 'lines_t']) + [trace_family(tier, seed), cli_family(tier), long_family(tier, seed)], 'covered',
                   'every cell ledger of the family; non-trivial = accepted (covered) ledgers, on which the three '
                   'conservation equalities are evaluated on the implementation\'s own report')


def c03(tier, seed):
    return combine(fam_list(tier, ['core_q', 'split_q', 'events_q', 'events_split_q', 'lines_fills_q', 'lines4_q'], ['core_t', 'split_t', 'events_t', 'events_split_t']) + [fx_family(tier), trace_family(tier, seed), cli_family(tier), long_family(tier, seed)], ['covered', 'multi_foreign_field'],
                   'every cell ledger of the family; non-trivial = accepted ledgers (legs + closing cost vs expenditure); '
                   'for ledgers with capital events TLC re-runs the specification on the observed apportionment')


def c05(tier, seed):
    return combine(fam_list(tier, ['core_q', 'frac_q', 'split_q', 'split5_q', 'residue_q', 'two_split_q', 'order_q', 'lines_q'], ['core_t', 'split_t', 'two_q', 'lines_t']) + [trace_family(tier, seed), cli_family(tier), long_family(tier, seed)], 'uncovered',
                   'every cell ledger of the family, covered or not; non-trivial = uncovered ledgers (must be refused '
                   'naming security and date); covered ones must be accepted')


def c06(tier, seed):
    return combine(fam_list(tier, ['order_q', 'order_split_q', 'two_q', 'two_fills_q', 'events_order_q', 'lines_q', 'lines4_q', 'lines_fills_q', 'lines_prepass_q', 'lines_prepass2_q', 'lines_files_q', 'lines_design_q'], ['order_t', 'two_t', 'lines_t', 'lines5_t', 'lines_files_t']) + [cli_family(tier), fx_family(tier)], ['variant_comparisons', 'partitions', 'fx_line_orders'],
                   'every cell ledger of the family rendered in canonical order and as reversed / sells-first / '
                   'actions-first / two seeded shuffles / adjacent and separated half fills / lower-case tickers; '
                   'non-trivial = implementation-vs-implementation comparisons of a variant with the canonical rendering',
                   assumptions=['file partitions (1..3 files, any assignment of 5 lines, with/without final line ending) are run through the cgt-tool binary'])


def c09(tier, seed):
    r = _c09(tier, seed)
    m = mcp_check(tier, seed)      # explain_matching must find a security's disposal whatever else was sold that day
    r['findings'] += [f for f in m['findings'] if f['prop'] == 'C09']
    r['coverage']['mcp_sessions'] = m['coverage'].get('sessions', 0)
    r['coverage']['states'] += m['coverage']['states']
    r['coverage']['transitions'] += m['coverage']['transitions']
    return r


def _c09(tier, seed):
    return combine(fam_list(tier, ['two_q', 'two_split_q', 'two_fills_q', 'two_events_q', 'lines_q', 'lines_files_q', 'lines_resv_q'], ['two_t', 'lines_t', 'lines_files_t']) + laws(tier, ['project_q'], ['project_t']), ['covered', 'nontrivial'],
                   'two-security cell ledgers (TLC checks OthersUntouched on every step); each security\'s legs, costs and '
                   'holding must equal the single-security specification outcome whatever the other security does and '
                   'wherever its lines sit; non-trivial = accepted ledgers')


def laws(tier, quick, thorough):
    return [law_family(n) for n in (quick if tier == 'quick' else quick + thorough)]


def c10(tier, seed):
    return combine(laws(tier, ['rescale_q', 'rescale_two_q', 'rescale_events_q', 'unsplit_q'], ['rescale_t', 'rescale5_t', 'unsplit_t']) + fam_list(tier, ['split_q', 'split2_q', 'two_split_q', 'events_split_q', 'lines_splits_q'], ['split_t', 'events_split_t']) + [long_family(tier, seed)],
                   ['nontrivial', 'with_splits'],
                   'pairs (ledger with one split at every position, same ledger rewritten in post-split units) and (ledger, '
                   'ledger + SPLIT f .. UNSPLIT f with no trade between): TLC checks the law between the two specification '
                   'runs, the harness demands the same relation between two implementation runs; plus the split families '
                   'against the specification outcome; non-trivial = accepted pairs with a multi-leg disposal / split ledgers')


def c12(tier, seed):
    return combine(laws(tier, ['extend_q', 'extend_events_q'], ['extend_t']), 'nontrivial',
                   'pairs (prefix, prefix + buys/sells/splits dated more than 30 days after it): TLC checks that the '
                   'prefix\'s legs are unchanged and that a failure can only be dated in the extension; the harness demands '
                   'the same of two implementation runs; non-trivial = accepted prefixes with at least one disposal')


def reports(tier, quick, thorough):
    return [report_family(n) for n in (quick if tier == 'quick' else quick + thorough)]


def c04(tier, seed):
    return combine(reports(tier, ['report_q', 'report_missing_q'], ['report_t', 'report_one_t']) + [cli_family(tier), fx_family(tier), long_family(tier, seed)] + fam_list(tier, ['lines4_q', 'lines_fills_q'], []), ['reports', 'missing_exemption_refused', 'layering_configs', 'multi_foreign_field'],
                   'two-security cell ledgers placed on real dates around 5/6 April with cash dividends and a small exemption '
                   'table (one family leaves a needed year unconfigured); TLC checks the report identities on the '
                   'specification and prints the per-year totals; the implementation\'s TaxReport must show the same '
                   'totals and satisfy the identities on its own figures; non-trivial = reports produced + runs refused '
                   'for a missing exemption',
                   assumptions=['override-file layering (embedded, ./config.toml, ~/.config/cgt-tool/config.toml) is specified in Report.tla (Layered) and exercised through the cgt-tool binary in 25 configurations'])


def c07(tier, seed):
    r = _c07(tier, seed)
    m = mcp_check(tier, seed)      # the third derivation of the tax year lives in the MCP explain_matching handler
    r['findings'] += [f for f in m['findings'] if f['prop'] == 'C07']
    return r


def _c07(tier, seed):
    return combine([calendar_family()] + reports(tier, ['report_q', 'report_missing_q'], ['report_t', 'report_one_t']) + [long_family(tier, seed)], ['boundary_dates', 'slices', 'slices_next_to_unconfigured_year'],
                   'every date 1899-12-31..2101-12-31 (exhaustive, one TLC state each) through TaxPeriod::from_date, the '
                   'all-years grouping and the single-year filter for the years Y-1, Y, Y+1; plus, for every report-family '
                   'ledger, calculate(Some(Y)) against the Y entry of calculate(None); non-trivial = 5/6 April and leap-day '
                   'dates + slices compared')


def c08(tier, seed):
    r = _c08(tier, seed)
    m = mcp_check(tier, seed)      # get_fx_rate through the MCP server against the bundled XML
    r['findings'] += [f for f in m['findings'] if f['prop'] == 'C08']
    r['coverage']['mcp_sessions'] = m['coverage'].get('sessions', 0)
    r['coverage']['states'] += m['coverage']['states']
    r['coverage']['transitions'] += m['coverage']['transitions']
    return r


def _c08(tier, seed):
    return combine([fx_family(tier)], ['multi_foreign_field', 'missing_rate_refused', 'bad_folder_rejected'],
                   '12 rates-folder configurations (override, addition, two files for one month in both mtime orders, period/name '
                   'mismatch in month / year / both, zero and negative rates, non-xml file, good-then-bad) x every assignment '
                   'of GBP/USD/EUR to the six money fields of a BUY / DIVIDEND / SELL ledger x a SELL month with and without '
                   'bundled rates; TLC checks latest-mtime-wins, locality of overrides, rejection and own-month keys on the Fx '
                   'state machine; the implementation is compared with its own GBP twin, with the expected error, and on '
                   'every bundled (currency, month) key; non-trivial = ledgers with >= 2 foreign fields + refused runs',
                   assumptions=['bundled rates are read independently from the XML text under crates/cgt-money/resources/rates'])


def c13(tier, seed):
    fams = [dsl_family('styles', 1), dsl_family('corrupt', 1)] + ([dsl_family('styles', 2)] if tier == 'thorough' else [])
    fams.append(cli_family(tier))     # LF / CRLF / CR / no final newline through the cgt-tool binary's own file reader
    return combine(fams, ['styled', 'rejected', 'partitions'],
                   'every command with every combination of optional clause and currency (444 transactions, every spelling with '
                   'GBP left out / a zero clause spelt out) rendered in a three-line file under every lexical style varied alone '
                   '(thorough: all pairs): keyword/currency/ticker case, gaps, trailing comments (spaced, tight, containing '
                   'keywords), LF/CRLF/CR, missing final newline, blank / comment / spaces-only filler lines; plus every single-token '
                   'corruption (delete, duplicate, junk, swap) with the verdict of the TLA+ recogniser; non-trivial = styled '
                   'texts + rejected corruptions (error position must lie inside the offending line)')


def c14(tier, seed):
    r = _c14(tier, seed)
    m = mcp_check(tier, seed)      # a ledger gives the same result in the CLI and in the MCP tools, whatever was asked before
    r['findings'] += [f for f in m['findings'] if f['prop'] == 'C14']
    r['coverage']['mcp_sessions'] = m['coverage'].get('sessions', 0)
    r['coverage']['states'] += m['coverage']['states']
    r['coverage']['transitions'] += m['coverage']['transitions']
    return r


def _c14(tier, seed):
    return combine([dsl_family('roundtrip', 1), dsl_family('json', 1), cli_family(tier)], ['nontrivial', 'json_spellings'],
                   'every generated transaction written by the real DSL writer (byte-compared with the specification\'s Write), '
                   'parsed back, re-written (idempotence), and round-tripped through the tool\'s JSON; every documented JSON input spelling (money as string / number / object, action and ticker case, zero clause omitted or spelt, CAP_RETURN alias) read by serde; TLC checks RoundTrips and '
                   'Idempotent on the specification; non-trivial = transactions with money fields',
                   assumptions=['exactness of rust_decimal Display/FromStr is observed, not modelled (decimals are opaque literals in the spec)'])


def c15(tier, seed):
    r = _c15(tier, seed)
    # the MCP tools are entry points too: a tool call that is never answered (its task died) is a crash
    m = mcp_check(tier, seed)
    for f in m['findings']:
        if f['prop'] == 'C20' and f['kind'] == 'unanswered':
            g = dict(f)
            g['prop'], g['kind'] = 'C15', 'mcp_tool_never_returns'
            r['findings'].append(g)
    r['coverage']['mcp_sessions'] = m['coverage'].get('sessions', 0)
    r['coverage']['states'] += m['coverage']['states']
    r['coverage']['transitions'] += m['coverage']['transitions']
    return r


def _c15(tier, seed):
    return combine([cli_family(tier), misc_family(), dsl_family('corrupt', 1)], ['failing_scenarios', 'invalid_classes', 'hostile_cases'],
                   'every command / format / output-option combination of the Cli.tla step machine with every fault placement '
                   '(missing input, bad rates folder, parse error, uncovered sale, missing exemption, missing rate, absurd year, '
                   'unwritable output, pre-existing default PDF, bad export, RSU without awards) staged on disk and run through the '
                   'real binary: exit status, emptiness of stdout, bytes of the target file before/after, completeness of the '
                   'output; non-trivial = failing scenarios')


def c17(tier, seed):
    r = _c17(tier, seed)
    m = mcp_check(tier, seed)      # the MCP front-end: explain_matching / calculate_report figures against the CLI
    r['findings'] += [f for f in m['findings'] if f['prop'] == 'C17']
    r['coverage']['mcp_sessions'] = m['coverage'].get('sessions', 0)
    r['coverage']['states'] += m['coverage']['states']
    r['coverage']['transitions'] += m['coverage']['transitions']
    return r


def _c17(tier, seed):
    return combine([format_family(tier)] + reports(tier, ['report_q'], []), ['midpoints', 'mixed_currency_echoes', 'wasm_reports'],
                   'money values in thousandths of a pound (every half-penny midpoint in -3..3, magnitudes around every digit-count '
                   'boundary up to 2,000,000, each netted against a loss of 5.006 in the same tax year) placed in the slots of a '
                   'TaxReport and shown by the plain-text formatter, the JSON serialiser and the PDF (text runs of the compiled '
                   'document via the verif hook); expected strings come from Format.tla (RoundPence, Gbp, TaxYearLabel, DateUk); '
                   'every tax-year label 1900..2100; echoes of BUY/SELL lines and asset events (PriceText, CurCell, EventText, QtyText) for every pairing of price and fee currency in GBP/USD/EUR: text line, JSON amounts and currencies, PDF table cells; non-trivial = midpoint values + mixed-currency echoes',
                   assumptions=['MCP front-end: calculate_report payloads are digest-compared with the CLI and explain_matching figures with the report (lib/vcheck/mcp.py)'])


def c18(tier, seed):
    return combine([schwab_family(tier), awards_family(tier)], ['with_cancel', 'hostile_text', 'permutations'],
                   'every export of at most 3 (thorough: 4) rows over an alphabet of 23 row shapes, all orders, duplicates included: '
                   'TLC runs the two-pass Schwab.tla machine with its invariants (each Cancel Sell removes exactly one identical '
                   'Sell, nothing relevant disappears silently, dividend / withholding totals) and prints the expected lines; the '
                   'real converter\'s output must parse as DSL whatever the free text contains, equal the expected multiset, be '
                   'chronological, be independent of row order (all permutations) and of date-disjoint chunking; non-trivial = '
                   'exports with cancellations or hostile free text, and permutations compared')


def c19(tier, seed):
    return combine([awards_family(tier)], ['look_back', 'expected_failures'],
                   'every awards file of at most 2 (thorough: 3) entries at day offsets -9..+2 around the deposit (vest-date value '
                   'with / without its own vest date, fallback price, both in one entry in either order, duplicates, another '
                   'symbol) x 5 base dates across month, year and leap-day boundaries x symbol case; Awards.tla gives the '
                   'admissible (date, price) results or failure; non-trivial = look-back hits and expected failures')


def c16(tier, seed):
    return det_check(tier, seed)


def c20(tier, seed):
    return mcp_check(tier, seed)


def c11(tier, seed):
    return combine(fam_list(tier, ['events_q', 'events_cheap_q', 'events_split_q', 'events_order_q', 'matcher_events_q', 'lines4_q', 'lines_prepass_q', 'lines_prepass2_q'], ['events_t', 'events_split_t', 'matcher_events_t', 'matcher_sim_t']) + [trace_family(tier, seed), fx_family(tier), long_family(tier, seed)], 'with_events',
                   'cell ledgers with a capital return / accumulation cell at every position; TLC judges the observed '
                   'per-lot apportionment (never on later acquisitions, sums to the net amount, nothing negative); '
                   'conservation of the amount, s122 refusal of unabsorbable returns, dividend inertness; '
                   'non-trivial = ledgers with a cost event')


PROPS = {'C16': c16, 'C20': c20, 'C18': c18, 'C19': c19, 'C17': c17, 'C15': c15, 'C13': c13, 'C14': c14, 'C08': c08, 'C04': c04, 'C07': c07, 'C01': c01, 'C02': c02, 'C03': c03, 'C05': c05, 'C06': c06, 'C09': c09, 'C10': c10, 'C11': c11, 'C12': c12}


def replay(prop, path):
    f = json.load(open(path))
    print(json.dumps({k: f[k] for k in ('prop', 'kind', 'detail')}, indent=1))
    print(f.get('input', ''))
    return 0
