"""Per-property check definitions: which model families are run and how their findings are attributed."""
import json, os
from . import common
from .common import tlc, harness, read_ndjson, workdir, log, SPEC

# --------------------------------------------------------------------------------------------
# MC_Cgt families.  Every family is one TLC configuration of spec/MC_Cgt.tla (written to
# spec/cfg/<name>.cfg so it can be inspected and run by hand) plus the way its behaviours are
# rendered for the implementation.

CGT_INVARIANTS = ('ClaimsWithinBought PoolNonNeg S104Covers LegsSumToSold HoldIsClosedForm HoldDecomposition '
                  'FailIffUncovered LegOrder WindowEdge PoolOnlyWhenWindowExhausted CostConservedAtEnd ClosingHolding '
                  'EmitReplay')
CGT_PROPS = 'SplitMovesNoMoney OthersUntouched LegsAppendOnly'


def set_(xs):
    return '{' + ', '.join(str(x) for x in xs) + '}'


def cgt_cfg(secs='SecSeqA', dayset=1, buy=(0, 1, 2), sell=(0, 1, 2), qden=1, splits=(), maxsplits=0,
            events=(), maxevents=0, grid=1, maxcells=0, timings=('"end"',)):
    return f'''SPECIFICATION MCSpec
CONSTANTS
  SecSeq <- {secs}
  N <- MC_N
  DayNo <- MC_DayNo
  Timings = {set_(timings)}
  DaySet = {dayset}
  BuyQs = {set_(buy)}
  SellQs = {set_(sell)}
  QDen = {qden}
  SplitKinds = {set_(splits)}
  MaxSplits = {maxsplits}
  EventKinds = {set_(events)}
  MaxEvents = {maxevents}
  DistGrid = {grid}
  MaxCells = {maxcells}
  Emit = TRUE
INVARIANTS
  {CGT_INVARIANTS}
PROPERTIES
  {CGT_PROPS}
CHECK_DEADLOCK FALSE
'''


BOTH = ('"end"', '"start"')

# name -> (cfg kwargs, harness variants, number of base dates)
CGT_FAMILIES = {
    # one security, five day slots around the 30/31-day edge, every cell 0..2: 59,049 ledgers
    'core_q': (dict(dayset=1), 'none', 2),
    # fractional quantities (halves) on the short window 0,1,31,32
    'frac_q': (dict(dayset=3, buy=(0, 1, 3), sell=(0, 1, 3), qden=2), 'none', 1),
    # splits / unsplits at every position: one split cell, ratios 2, 3, 1/2, 3/2
    'split_q': (dict(dayset=3, splits=(1, 2, 3, 4), maxsplits=1, timings=BOTH), 'none', 1),
    # eight slots, at most 6 non-empty cells, quantities 0..3
    'core_t': (dict(dayset=2, buy=(0, 1, 2, 3), sell=(0, 1, 2, 3), maxcells=5), 'none', 6),
    'split_t': (dict(dayset=1, buy=(0, 1, 2), sell=(0, 1, 2), splits=(1, 2, 3, 4), maxsplits=2, maxcells=5,
                     timings=BOTH), 'none', 2),
    # line order / fill splitting: same ledgers, many renderings
    'order_q': (dict(dayset=3), 'all', 1),
    'order_t': (dict(dayset=1), 'all', 1),
}

_family_cache = {}


def write_cfg(name, text):
    d = os.path.join(SPEC, 'cfg')
    os.makedirs(d, exist_ok=True)
    p = os.path.join(d, name + '.cfg')
    if not os.path.exists(p) or open(p).read() != text:
        open(p, 'w').write(text)
    return os.path.join('cfg', name + '.cfg')


def cgt_family(name):
    if name in _family_cache:
        return _family_cache[name]
    kw, variants, bases = CGT_FAMILIES[name]
    cfg = write_cfg('MC_Cgt_' + name, cgt_cfg(**kw))
    m = tlc('MC_Cgt', cfg, workers=8, timeout=3000)
    log(f'[tlc] MC_Cgt/{name}: {m["states"]} distinct states, {m["transitions"]} transitions, depth {m["depth"]}'
        f' ({"cached" if m["cached"] else str(m["wall_s"]) + "s"})')
    wd = workdir('cgt_' + name)
    out = os.path.join(wd, 'findings.ndjson')
    s = harness('replay_cgt', ['--in', m['out'], '--out', out, '--bases', str(bases), '--variants', variants])
    r = {'name': name, 'tlc': m, 'summary': s, 'findings': read_ndjson(out)}
    log(f'[replay] MC_Cgt/{name}: {s["records"]} behaviours, {s["counters"].get("executions", 0)} executions, '
        f'{s["findings"]} deviations')
    _family_cache[name] = r
    return r


def combine(fams, nontrivial_key, rule, exhaustive=True, assumptions=None):
    findings = []
    cov = {'states': 0, 'transitions': 0, 'traces_validated_against_impl': 0, 'evaluations': 0,
           'distinct_nontrivial': 0, 'rule': rule, 'samples': [], 'exhaustive': exhaustive, 'families': {}}
    for f in fams:
        findings += f['findings']
        c = f['summary']['counters']
        cov['states'] += f['tlc']['states']
        cov['transitions'] += f['tlc']['transitions']
        cov['traces_validated_against_impl'] += c.get('executions', 0)
        cov['evaluations'] += c.get('executions', 0)
        cov['distinct_nontrivial'] += c.get(nontrivial_key, 0)
        cov['samples'] += f['summary'].get('samples', [])[:2]
        cov['families'][f['name']] = {'tlc_states': f['tlc']['states'], 'tlc_from_cache': f['tlc']['cached'],
                                      'behaviours': f['summary']['records'], 'counters': c}
    base = ['TLC 1.8.0 explored the bounded model exhaustively (constants in spec/cfg/*.cfg); TLC results are cached by a '
            'digest of spec/*.tla + cfg because they do not depend on /repo',
            'implementation observed through cgt_core::calculator::calculate built from /repo\'s working tree',
            'tolerance 1e-12 on full-precision figures, 1e-9 on disposal proceeds (rounded to 10 dp by the code)']
    return {'findings': findings, 'coverage': cov, 'assumptions': base + (assumptions or [])}


def fam_list(tier, quick, thorough):
    return [cgt_family(n) for n in (quick if tier == 'quick' else quick + thorough)]


def c01(tier, seed):
    return combine(fam_list(tier, ['core_q', 'frac_q', 'split_q'], ['core_t', 'split_t']), 'multi_leg_disposals',
                   'every cell ledger of the family (TLC-enumerated) x base dates; non-trivial = ledgers with a disposal '
                   'identified by two or more legs')


def c02(tier, seed):
    return combine(fam_list(tier, ['core_q', 'frac_q', 'split_q'], ['core_t', 'split_t']), 'covered',
                   'every cell ledger of the family; non-trivial = accepted (covered) ledgers, on which the three '
                   'conservation equalities are evaluated on the implementation\'s own report')


def c03(tier, seed):
    return combine(fam_list(tier, ['core_q', 'frac_q', 'split_q'], ['core_t', 'split_t']), 'covered',
                   'every cell ledger of the family; non-trivial = accepted ledgers (legs + closing cost vs expenditure)')


def c05(tier, seed):
    return combine(fam_list(tier, ['core_q', 'frac_q', 'split_q'], ['core_t', 'split_t']), 'uncovered',
                   'every cell ledger of the family, covered or not; non-trivial = uncovered ledgers (must be refused '
                   'naming security and date); covered ones must be accepted')


PROPS = {'C01': c01, 'C02': c02, 'C03': c03, 'C05': c05}


def replay(prop, path):
    f = json.load(open(path))
    print(json.dumps({k: f[k] for k in ('prop', 'kind', 'detail')}, indent=1))
    print(f.get('input', ''))
    return 0
