"""C20: sessions played against the real `cgt-tool mcp` process; the recorded Send/Recv/Close/Exit traces are
validated by TLC against Mcp.tla (McpTrace.tla)."""
import hashlib, json, os, random, shutil, subprocess, tempfile, threading, time
from concurrent.futures import ThreadPoolExecutor
from . import common
from .cli import canon, run as run_cli
from .common import tlc, log, workdir, ToolError

# quantities with three and four decimals: every front-end shows quantities exactly (C17)
G1 = ('2020-06-01 BUY AAA 10.5 @ 5\n2020-07-01 SELL AAA 4.375 @ 8 FEES 1\n2020-07-15 BUY AAA 2.125 @ 6\n'
      '2021-06-10 DIVIDEND AAA TOTAL 3 TAX 1\n2021-09-01 SELL AAA 3.3333 @ 4\n2021-09-01 BUY BBB 5 @ 2.125\n2021-09-01 SELL BBB 1 @ 2.5\n2021-10-05 SELL BBB 4 @ 2.25\n'
      # a capital return months after every AAA sale: it still moves the cost of the lots those sales drew on
      '2022-03-01 CAPRETURN AAA 4 TOTAL 2.5 FEES 0\n'
      # a sale with a repurchase exactly 30 days later (1 June -> 1 July): the last day of the 30-day rule
      '2022-05-01 BUY CCC 10 @ 3\n2022-06-01 SELL CCC 4 @ 5\n2022-07-01 BUY CCC 3 @ 4\n')
UNCOVERED = '2020-06-01 BUY AAA 10 @ 5\n2020-07-01 SELL AAA 40 @ 8\n'
DIVONLY = '2024-06-10 DIVIDEND AAA TOTAL 200.50 TAX 12\n2024-09-10 DIVIDEND BBB TOTAL 10 USD TAX 0\n'     # an income-only year: no BUY, no SELL
NOEXEMPT = '2030-06-01 BUY AAA 10 @ 5\n2030-07-01 SELL AAA 4 @ 8\n'
OVERFLOW = '2020-06-01 BUY AAA 1 @ 79228162514264337593543950335 FEES 1\n'
# a ledger with a disposal in a tax year that has no configured exemption: a single-year report of another year is still possible
G2 = '2024-05-01 BUY VOD 100 @ 1\n2024-09-10 SELL VOD 10 @ 2\n2026-09-10 SELL VOD 5 @ 2\n2012-05-01 BUY OLD 10 @ 1\n2012-06-01 SELL OLD 5 @ 2\n'
# two securities are sold on 2021-09-01: each must be explainable on its own (C09); the BBB same-day leg costs exactly
# 2.125 -- a half-penny midpoint after an even digit (half-even rounding would show 2.12, every front-end shows 2.13 or 2.125)
DISPOSALS = [('2020-07-01', 'AAA'), ('2021-09-01', 'AAA'), ('2021-09-01', 'BBB'), ('2021-10-05', 'bbb'), ('2022-06-01', 'CCC')]


G1_REV = ''.join(l + '\n' for l in reversed(G1.strip().split('\n')))


def call(tool, args):
    return {'method': 'tools/call', 'params': {'name': tool, 'arguments': args}}


def classes(g1_json):
    c = {
        'calc_all': call('calculate_report', {'transactions': G1}),
        'calc_json': call('calculate_report', {'transactions': g1_json}),
        'calc_year': call('calculate_report', {'transactions': G1, 'year': 2020}),
        'calc_divonly': call('calculate_report', {'transactions': DIVONLY, 'year': 2024}),
        # the same ledger written newest first (a broker export): every SELL line stands above its security's first BUY line
        'calc_rev': call('calculate_report', {'transactions': G1_REV}),
        'explain_rev': call('explain_matching', {'transactions': G1_REV, 'disposal_date': DISPOSALS[0][0], 'ticker': DISPOSALS[0][1]}),
        # input sniffing: JSON after leading white space, DSL after leading blank and comment lines, JSON through the parse tool
        'calc_json_ws': call('calculate_report', {'transactions': '\n  \t' + g1_json + '\n'}),
        'calc_dsl_lead': call('calculate_report', {'transactions': '\n# my ledger [2020]\n\n' + G1}),
        'parse_json': call('parse_transactions', {'transactions': g1_json}),
        'calc_mixed': call('calculate_report', {'transactions': G2, 'year': 2024}),
        'explain_mixed': call('explain_matching', {'transactions': G2, 'disposal_date': '2024-09-10', 'ticker': 'VOD'}),
        'parse': call('parse_transactions', {'transactions': G1}),
        'to_dsl': call('convert_to_dsl', {'transactions': g1_json}),
        'fx': call('get_fx_rate', {'currency': 'usd', 'year': 2024, 'month': 1}),
        'bad_args': call('calculate_report', {}),
        'bad_dsl': call('calculate_report', {'transactions': '2020-13-45 FROB ??? \n'}),
        'bad_json': call('parse_transactions', {'transactions': '[{"date": "2020-01-01", "ticker": "é' + 'x' * 230 + '"'}),
        # a long offending line full of multi-byte characters, at both byte parities (any fixed-offset truncation cuts one)
        'bad_json_wide_a': call('calculate_report', {'transactions': '[{"date": "2020-01-01", "ticker": "' + 'é' * 400 + '", "action": "BUY", "amount": }]'}),
        'bad_json_wide_b': call('convert_to_dsl', {'transactions': '[{"date":  "2020-01-01", "ticker": "' + '€' * 300 + 'é' * 100 + '", "action": "BUY", "amount": }]'}),
        'bad_json_wide_c': call('parse_transactions', {'transactions': '[{"date":   "2020-01-01", "ticker": "' + 'é€' * 200 + '", "action": "BUY", "amount": }]'}),
        'uncovered': call('calculate_report', {'transactions': UNCOVERED}),
        'no_exemption': call('calculate_report', {'transactions': NOEXEMPT}),
        'big_year': call('calculate_report', {'transactions': G1, 'year': 2147483647}),
        'explain_missing': call('explain_matching', {'transactions': G1, 'disposal_date': '2020-07-02', 'ticker': 'AAA'}),
        'unknown_tool': call('no_such_tool', {'x': 1}),
        'unknown_method': {'method': 'frobnicate/now', 'params': {}},
        'tools_list': {'method': 'tools/list', 'params': {}},
        'res_list': {'method': 'resources/list', 'params': {}},
        'res_read': {'method': 'resources/read', 'params': {'uri': 'cgt://docs/dsl-syntax'}},
        'res_bad': {'method': 'resources/read', 'params': {'uri': 'cgt://docs/nope'}},
        'initialize': {'method': 'initialize', 'params': {'protocolVersion': '2024-11-05', 'capabilities': {},
                                                           'clientInfo': {'name': 'verif', 'version': '0'}}},
        'overflow': call('calculate_report', {'transactions': OVERFLOW}),
    }
    for i, (d, t) in enumerate(DISPOSALS):
        c[f'explain_{i}'] = call('explain_matching', {'transactions': G1, 'disposal_date': d, 'ticker': t})
    return c


def digest_of(msg):
    """(kind, digest) of a JSON-RPC response."""
    if 'error' in msg:
        return 'error', ''
    res = msg.get('result', {})
    if isinstance(res, dict) and res.get('isError'):
        return 'error', ''
    payload = res
    # the order of the tool / resource listings is not specified (the router keeps them in a hash map)
    if isinstance(res, dict):
        for key, by in (('tools', 'name'), ('resources', 'uri')):
            if isinstance(res.get(key), list):
                payload = dict(res, **{key: sorted(res[key], key=lambda x: json.dumps(x.get(by)) if isinstance(x, dict) else json.dumps(x))})
    if isinstance(res, dict) and isinstance(res.get('content'), list) and res['content'] and 'text' in res['content'][0]:
        t = res['content'][0]['text']
        try:
            payload = canon(json.loads(t))
        except Exception:
            payload = t
    return 'result', hashlib.sha256(json.dumps(payload, sort_keys=True).encode()).hexdigest()[:16]


class Session:
    def __init__(self, root, idx):
        self.dir = os.path.join(root, f's{idx}')
        os.makedirs(os.path.join(self.dir, 'home'), exist_ok=True)
        self.events = []
        self.lock = threading.Lock()
        self.pending = set()
        self.cv = threading.Condition(self.lock)
        self.responses = {}
        self.proc = subprocess.Popen([common.CGT_TOOL, 'mcp'], cwd=self.dir, env=dict(os.environ, HOME=os.path.join(self.dir, 'home')),
                                     stdin=subprocess.PIPE, stdout=subprocess.PIPE, stderr=subprocess.DEVNULL)
        self.next_id = 1
        self.reader = threading.Thread(target=self._read, daemon=True)
        self.reader.start()

    def _read(self):
        for line in self.proc.stdout:
            line = line.strip()
            if not line:
                continue
            try:
                msg = json.loads(line)
            except Exception:
                continue
            if 'id' not in msg or ('result' not in msg and 'error' not in msg):
                continue        # server-initiated notifications / requests are not answers
            kind, dg = digest_of(msg)
            with self.cv:
                self.events.append({'event': 'Recv', 'id': msg['id'], 'kind': kind, 'digest': dg})
                self.pending.discard(msg['id'])
                self.responses[msg['id']] = msg
                self.cv.notify_all()

    def _write(self, obj):
        try:
            self.proc.stdin.write((json.dumps(obj) + '\n').encode())
            self.proc.stdin.flush()
        except (BrokenPipeError, OSError):
            pass

    def send(self, cls, body):
        with self.cv:
            i = self.next_id
            self.next_id += 1
            self.events.append({'event': 'Send', 'id': i, 'class': cls})     # logged before the bytes are written
            self.pending.add(i)
        self._write(dict(body, jsonrpc='2.0', id=i))
        return i

    def notify(self, cls, method):
        with self.cv:
            self.events.append({'event': 'Notify', 'class': cls})
        self._write({'jsonrpc': '2.0', 'method': method})

    def raw(self, text):
        try:
            self.proc.stdin.write(text.encode())
            self.proc.stdin.flush()
        except (BrokenPipeError, OSError):
            pass

    def drain(self, timeout=None):
        end = time.time() + (timeout or getattr(self, 'patience', 25))
        with self.cv:
            while self.pending and time.time() < end:
                self.cv.wait(timeout=0.2)
            return not self.pending

    def finish(self, timeout=15):
        with self.cv:
            self.events.append({'event': 'Close'})
        try:
            self.proc.stdin.close()
        except OSError:
            pass
        try:
            code = self.proc.wait(timeout=timeout)
        except subprocess.TimeoutExpired:
            self.proc.kill()
            code = -9
        self.reader.join(timeout=5)
        with self.cv:
            self.events.append({'event': 'Exit', 'code': code})
        return self.events


def play(root, idx, script, cls, patience=25):
    """script: list of steps ('send', class) | ('drain',) | ('notify', name) | ('raw', text)."""
    s = Session(root, idx)
    s.patience = patience
    s.send('initialize', cls['initialize'])
    s.drain()
    s.notify('initialized', 'notifications/initialized')
    for st in script:
        if st[0] == 'send':
            s.send(st[1], cls[st[1]])
        elif st[0] == 'drain':
            s.drain()
        elif st[0] == 'notify':
            s.notify('note', 'notifications/' + st[1])
        elif st[0] == 'raw':
            s.raw(st[1])
    s.drain()
    return [{'event': 'Reset'}] + s.finish(), s.responses


def scripts_for(tier, seed, names):
    """Session scripts: every class alone, every ordered pair pipelined (quick: a seeded sample), long pipelines."""
    rnd = random.Random(seed)
    out = [[('send', n)] for n in names]
    pairs = [(a, b) for a in names for b in names]
    rnd.shuffle(pairs)
    for a, b in pairs[:(40 if tier == 'quick' else 400)]:
        out.append([('send', a), ('send', b)])
    for a, b in pairs[40:(60 if tier == 'quick' else 500)]:
        out.append([('send', a), ('drain',), ('send', b)])
    for k in range(6 if tier == 'quick' else 60):
        n = rnd.randint(6, 16)
        sc = []
        for _ in range(n):
            sc.append(('send', rnd.choice(names)))
            r = rnd.random()
            if r < 0.15:
                sc.append(('drain',))
            elif r < 0.25:
                sc.append(('notify', 'cancelled' if rnd.random() < 0.5 else 'unknown_thing'))
        out.append(sc)
    # everything at once, in both orders
    out.append([('send', n) for n in names])
    out.append([('send', n) for n in reversed(names)])
    return out


def validate(trace_path, name):
    m = tlc('McpTrace', os.path.join('cfg', 'McpTrace.cfg'), workers=1, timeout=1200, env={'TRACE': trace_path}, cache=False,
            jvm=['-Xss512m', '-Dtlc2.tool.queue.IStateQueue=StateDeque'], allow_fail=True)
    txt = open(m['out'], errors='replace').read()
    ok = 'No error has been found' in txt and 'REJECTED_AT' not in txt
    rej = None
    for line in txt.splitlines():
        if 'REJECTED_AT' in line:
            rej = line.strip()
    inv = None
    if 'Invariant' in txt and 'is violated' in txt:
        inv = [l for l in txt.splitlines() if 'is violated' in l][0]
    log(f'[trace] McpTrace/{name}: {m["states"]} states, {"accepted" if ok else "REJECTED"} ({m["wall_s"]}s)')
    return ok, rej or inv or ('TLC error' if not ok else None), m


_mcp_cache = {}


def mcp_check(tier, seed):
    key = (tier, seed)
    if key not in _mcp_cache:
        _mcp_cache[key] = _mcp_check(tier, seed)
    return _mcp_cache[key]


def _mcp_check(tier, seed):
    common.build_cli()
    root = tempfile.mkdtemp(prefix='cgtv_mcp_', dir=workdir('mcp'))
    findings = []
    try:
        os.makedirs(os.path.join(root, 'ref', 'home'))
        open(os.path.join(root, 'ref', 'g1.cgt'), 'w').write(G1)
        rc, so, se = run_cli(os.path.join(root, 'ref'), os.path.join(root, 'ref', 'home'), ['parse', 'g1.cgt'])
        if rc != 0:
            raise ToolError(f'reference ledger does not parse: {se[-200:]!r}')
        g1_json = so.decode()
        cls = classes(g1_json)
        names = [n for n in cls if n not in ('initialize', 'overflow', 'unknown_method')]
        # ---- expectations: the CLI for calculations and parsing, a solitary call otherwise
        expect = {}

        def cli_digest(args, pick):
            rc, so, se = run_cli(os.path.join(root, 'ref'), os.path.join(root, 'ref', 'home'), args)
            if rc != 0:
                raise ToolError(f'reference CLI run failed: {args}: {se[-200:]!r}')
            return hashlib.sha256(json.dumps(canon(pick(json.loads(so))), sort_keys=True).encode()).hexdigest()[:16]
        core = lambda j: {'tax_years': j['tax_years'], 'holdings': j['holdings']}
        expect['calc_all'] = {'kind': 'result', 'digest': cli_digest(['report', '--format', 'json', 'g1.cgt'], core)}
        expect['calc_json'] = expect['calc_all']
        expect['calc_json_ws'] = expect['calc_all']
        expect['calc_dsl_lead'] = expect['calc_all']
        expect['calc_year'] = {'kind': 'result', 'digest': cli_digest(['report', '--format', 'json', '--year', '2020', 'g1.cgt'], core)}
        open(os.path.join(root, 'ref', 'divonly.cgt'), 'w').write(DIVONLY)
        expect['calc_divonly'] = {'kind': 'result', 'digest': cli_digest(['report', '--format', 'json', '--year', '2024', 'divonly.cgt'], core)}
        open(os.path.join(root, 'ref', 'g1rev.cgt'), 'w').write(G1_REV)
        expect['calc_rev'] = {'kind': 'result', 'digest': cli_digest(['report', '--format', 'json', 'g1rev.cgt'], core)}
        expect['parse'] = {'kind': 'result', 'digest': cli_digest(['parse', 'g1.cgt'], lambda j: j)}
        expect['parse_json'] = expect['parse']
        open(os.path.join(root, 'ref', 'g2.cgt'), 'w').write(G2)
        try:
            expect['calc_mixed'] = {'kind': 'result', 'digest': cli_digest(['report', '--format', 'json', '--year', '2024', 'g2.cgt'], core)}
        except ToolError as e:
            # the CLI itself refuses the report of a configured year because ANOTHER year of the history is unconfigured
            for pr in ('C07', 'C20'):
                findings.append({'prop': pr, 'kind': 'year_report_refused', 'case': 0, 'input': G2, 'data': {},
                                 'detail': f'cgt-tool report --year 2024 fails on a ledger whose other year lies outside the exemption table: {str(e)[-300:]}'})
            expect['calc_mixed'] = {'kind': 'error', 'digest': ''}
        for n in ('bad_args', 'bad_dsl', 'bad_json', 'bad_json_wide_a', 'bad_json_wide_b', 'bad_json_wide_c', 'uncovered', 'no_exemption', 'big_year', 'explain_missing', 'unknown_tool', 'res_bad'):
            expect[n] = {'kind': 'error', 'digest': ''}
        # every class expected to fail is also sent alone: it must be ANSWERED (C15/C20: a tool call never dies silently)
        failing = [n for n in names if n in expect and expect[n]['kind'] == 'error']
        with ThreadPoolExecutor(max_workers=8) as ex:
            alone = list(ex.map(lambda a: play(root, f'fail{a[0]}', [('send', a[1])], cls), enumerate(failing)))
        for n, (ev, resp) in zip(failing, alone):
            if 2 not in resp:
                findings.append({'prop': 'C20', 'kind': 'unanswered', 'case': 0, 'detail': f'a solitary {n} request was never answered', 'input': json.dumps(cls[n])[:2000], 'data': {'class': n}})
        expect['explain_rev'] = None        # the answer of explain_0 (same question, same transactions, other line order): set below
        solo = [n for n in names if n not in expect] + ['initialize']
        with ThreadPoolExecutor(max_workers=8) as ex:
            solos = list(ex.map(lambda a: play(root, f'solo{a[0]}', [('send', a[1])] if a[1] != 'initialize' else [], cls), enumerate(solo)))
        for n, (ev, resp) in zip(solo, solos):
            rid = 1 if n == 'initialize' else 2
            if rid not in resp:
                findings.append({'prop': 'C20', 'kind': 'unanswered', 'case': 0, 'detail': f'a solitary {n} request was never answered', 'input': json.dumps(cls[n])[:2000], 'data': {'class': n}})
                expect[n] = {'kind': 'result', 'digest': 'unanswered'}
                continue
            k, d = digest_of(resp[rid])
            expect[n] = {'kind': k, 'digest': d if n != 'initialize' else 'init'}
            if n.startswith('explain_') and n != 'explain_missing' and k != 'result':
                for pr in ('C20', 'C09', 'C17'):
                    findings.append({'prop': pr, 'kind': 'explain_covers', 'case': 0, 'input': json.dumps(cls[n])[:2000], 'data': {},
                                     'detail': f'calculate_report lists this disposal but explain_matching cannot explain it: {json.dumps(resp[rid])[:300]}'})
        expect['explain_rev'] = expect['explain_0']
        # explain_matching agrees with calculate_report / the CLI on every listed disposal (C17: same figures,
        # in full or rounded to pence with midpoints away from zero)
        rc, so, _ = run_cli(os.path.join(root, 'ref'), os.path.join(root, 'ref', 'home'), ['report', '--format', 'json', 'g1.cgt'])
        rep = json.loads(so)
        listed = [(d['date'], d['ticker']) for y in rep['tax_years'] for d in y['disposals']]
        if sorted(listed) != sorted((d, t.upper()) for d, t in DISPOSALS):
            raise ToolError(f'reference ledger lists disposals {listed}')
        from decimal import Decimal, ROUND_HALF_UP
        pence = lambda x: Decimal(x).quantize(Decimal('0.01'), rounding=ROUND_HALF_UP)
        for n, (ev, resp) in zip(solo, solos):
            if not (n.startswith('explain_') and n[8:].isdigit()) or 2 not in resp or 'result' not in resp[2]:
                continue
            d, t = DISPOSALS[int(n[8:])]
            disp = next(x for y in rep['tax_years'] for x in y['disposals'] if x['date'] == d and x['ticker'] == t.upper())
            try:
                ex = json.loads(resp[2]['result']['content'][0]['text'])
                bad = []
                if Decimal(ex['quantity']) != Decimal(disp['quantity']):
                    bad.append(f'quantity {ex["quantity"]} vs {disp["quantity"]}')
                if pence(ex['proceeds']) != pence(disp['proceeds']):
                    bad.append(f'proceeds {ex["proceeds"]} vs {disp["proceeds"]}')
                if pence(ex['total_gain_or_loss']) != pence(sum(Decimal(m['gain_or_loss']) for m in disp['matches'])) and \
                   abs(Decimal(ex['total_gain_or_loss']) - sum(Decimal(m['gain_or_loss']) for m in disp['matches'])) > Decimal('0.01') * len(disp['matches']):
                    bad.append(f'gain {ex["total_gain_or_loss"]} vs legs {[m["gain_or_loss"] for m in disp["matches"]]}')
                if [m['rule'].replace(' ', '').replace('&', 'And') for m in ex['matches']] != [m['rule'].replace('Bed', 'Bed') for m in disp['matches']]:
                    rules_ex = [m['rule'] for m in ex['matches']]
                    rules_cli = [m['rule'] for m in disp['matches']]
                    norm = lambda r: r.replace(' ', '').replace('&', 'And').lower()
                    if [norm(r) for r in rules_ex] != [norm(r) for r in rules_cli]:
                        bad.append(f'rules {rules_ex} vs {rules_cli}')
                # the explanation sentence quotes the leg's cost: in full, or rounded to pence with midpoints away from zero
                import re as _re2
                for me in ex['matches']:
                    mm = _re2.search(r'Cost basis:\s*£?\s*(-?[0-9][0-9,]*(?:\.[0-9]+)?)', me.get('explanation', ''))
                    if mm:
                        shown = Decimal(mm.group(1).replace(',', ''))
                        if shown != Decimal(me['allowable_cost']) and shown != pence(me['allowable_cost']):
                            bad.append(f'explanation of the {me["rule"]} leg says "Cost basis: {mm.group(1)}" for an allowable cost of {me["allowable_cost"]}')
                for me, mc in zip(ex['matches'], disp['matches']):
                    if pence(me['allowable_cost']) != pence(mc['allowable_cost']) or Decimal(me['quantity']) != Decimal(mc['quantity']):
                        bad.append(f'leg {me["rule"]}: {me["quantity"]} @ cost {me["allowable_cost"]} vs {mc["quantity"]} @ {mc["allowable_cost"]}')
                if bad:
                    for pr in ('C17', 'C20', 'C01'):
                        findings.append({'prop': pr, 'kind': 'mcp_explain_figures', 'case': 0, 'input': G1, 'data': {},
                                         'detail': f'explain_matching for {t} on {d} disagrees with the report: ' + '; '.join(bad)})
            except Exception as e:
                findings.append({'prop': 'C20', 'kind': 'explain_unreadable', 'case': 0, 'input': G1, 'data': {}, 'detail': f'explain_matching result for {t} on {d} cannot be read: {e}'})
        # convert_to_dsl: the DSL text it returns for the JSON ledger parses (through the CLI) to the same transactions (C14)
        for n, (ev, resp) in zip(solo, solos):
            if n == 'to_dsl' and 2 in resp and 'result' in resp[2]:
                try:
                    text = resp[2]['result']['content'][0]['text']
                    try:
                        text = json.loads(text).get('dsl', text) if text.lstrip().startswith('{') else text
                    except Exception:
                        pass
                    open(os.path.join(root, 'ref', 'back.cgt'), 'w').write(text if text.endswith('\n') else text + '\n')
                    rc1, so1, se1 = run_cli(os.path.join(root, 'ref'), os.path.join(root, 'ref', 'home'), ['parse', 'back.cgt'])
                    rc2, so2, _ = run_cli(os.path.join(root, 'ref'), os.path.join(root, 'ref', 'home'), ['parse', 'g1.cgt'])
                    if rc1 != 0 or rc2 != 0 or canon(json.loads(so1)) != canon(json.loads(so2)):
                        for pr in ('C14', 'C20'):
                            findings.append({'prop': pr, 'kind': 'mcp_convert_to_dsl', 'case': 0, 'input': text[:1500], 'data': {},
                                             'detail': f'the DSL returned by convert_to_dsl does not parse back to the ledger it was given (cgt-tool parse exit {rc1}: {se1[-200:]!r})'})
                except Exception as e:
                    findings.append({'prop': 'C20', 'kind': 'convert_unreadable', 'case': 0, 'input': G1, 'data': {}, 'detail': f'convert_to_dsl result cannot be read: {e}'})
        # get_fx_rate returns the bundled HMRC rate of exactly that currency and month (C08)
        for n, (ev, resp) in zip(solo, solos):
            if n == 'fx' and 2 in resp and 'result' in resp[2]:
                import re as _re
                xml = open(os.path.join(common.REPO, 'crates/cgt-money/resources/rates/2024-01.xml')).read()
                m_ = _re.search(r'<currencyCode>USD</currencyCode>\s*<rateNew>([0-9.]+)</rateNew>', xml)
                got = json.loads(resp[2]['result']['content'][0]['text'])
                if not m_ or Decimal(got['rate']) != Decimal(m_.group(1)) or got.get('period') != '2024-01' or got.get('currency') != 'USD':
                    findings.append({'prop': 'C08', 'kind': 'mcp_fx_rate', 'case': 0, 'input': 'get_fx_rate usd 2024 1', 'data': {},
                                     'detail': f'get_fx_rate returned {got}; the bundled file says {m_.group(1) if m_ else None}'})
        expect['initialize']['digest'] = 'init'
        # ---- play the scripts
        scripts = scripts_for(tier, seed, names)
        with ThreadPoolExecutor(max_workers=12) as ex:
            played = list(ex.map(lambda a: play(root, a[0], a[1], cls), enumerate(scripts)))
        events = []
        overlapping = 0
        for (ev, resp), sc in zip(played, scripts):
            for e in ev:
                if e['event'] == 'Recv' and e['id'] == 1:
                    e['digest'] = 'init' if e['kind'] == 'result' else e['digest']
            events += ev
            inflight, mx = 0, 0
            for e in ev:
                if e['event'] == 'Send':
                    inflight += 1
                    mx = max(mx, inflight)
                elif e['event'] == 'Recv':
                    inflight -= 1
            overlapping += 1 if mx >= 2 else 0
        header = {'classes': sorted(expect), 'expect': expect}
        tpath = os.path.join(workdir('mcp'), 'trace.ndjson')
        with open(tpath, 'w') as f:
            f.write(json.dumps(header) + '\n')
            for e in events:
                f.write(json.dumps(e) + '\n')
        ok, why, m = validate(tpath, 'sessions')
        if not ok:
            findings.append({'prop': 'C20', 'kind': 'trace_rejected', 'case': 0, 'input': tpath, 'data': {},
                             'detail': f'the recorded sessions are not a behaviour of Mcp.tla: {why}'})
        # ---- binding self-test: a corrupted trace must be rejected
        bad = [dict(e) for e in events]
        for e in bad:
            if e['event'] == 'Recv' and e['kind'] == 'result' and e['id'] > 1:
                e['digest'] = 'corrupted'
                break
        bpath = os.path.join(workdir('mcp'), 'trace_corrupt.ndjson')
        with open(bpath, 'w') as f:
            f.write(json.dumps(header) + '\n')
            for e in bad:
                f.write(json.dumps(e) + '\n')
        ok2, _, m2 = validate(bpath, 'corrupted-self-test')
        if ok2:
            raise ToolError('trace specification does not bind: a corrupted payload digest was accepted')
        drop = [e for j, e in enumerate(events) if not (e['event'] == 'Recv' and e['id'] == 2 and j < 12)]
        dpath = os.path.join(workdir('mcp'), 'trace_dropped.ndjson')
        with open(dpath, 'w') as f:
            f.write(json.dumps(header) + '\n')
            for e in drop:
                f.write(json.dumps(e) + '\n')
        ok3, _, _ = validate(dpath, 'dropped-response-self-test')
        if ok3 and len(drop) < len(events):
            raise ToolError('trace specification does not bind: a dropped response was accepted')
        # ---- statelessness on NEAR-IDENTICAL payloads: ledgers that differ only in where the white space falls between two
        # tokens (ABC1 20 / ABC 120), in one digit, or in the letter case of a ticker, asked one after the other in ONE
        # session; each answer must be what the CLI computes for that very text (C20: depends only on its own arguments;
        # C14: a ledger gives the same result in the CLI and in the MCP tools)
        near = {'a': '2024-05-01 BUY ABC1 20 @ 3 GBP\n', 'b': '2024-05-01 BUY ABC 120 @ 3 GBP\n', 'c': '2024-05-01 BUY ABC 12 0 @ 3 GBP\n'.replace('12 0', '12') + '2024-05-01 BUY ABC 108 @ 3 GBP\n',
                'd': '2024-05-01 BUY ABC1 2 0 @ 3 GBP\n'.replace('2 0', '21'), 'e': '2024-05-01 BUY abc1 20 @ 3 GBP\n'}
        ncls, nexp = {'initialize': cls['initialize']}, {}
        for k, text in near.items():
            open(os.path.join(root, 'ref', f'near_{k}.cgt'), 'w').write(text)
            ncls[f'np_{k}'] = call('parse_transactions', {'transactions': text})
            ncls[f'nc_{k}'] = call('calculate_report', {'transactions': text})
            nexp[f'np_{k}'] = cli_digest(['parse', f'near_{k}.cgt'], lambda j: j)
            nexp[f'nc_{k}'] = cli_digest(['report', '--format', 'json', f'near_{k}.cgt'], core)
        nscript = []
        for pre_ in ('np_', 'nc_'):
            for k in ('a', 'b', 'a', 'c', 'b', 'd', 'a', 'e', 'b', 'e', 'd', 'c'):
                nscript += [('send', pre_ + k), ('drain',)]
        ev, resp = play(root, 'near', nscript, ncls, patience=40)
        sent = {e['id']: e['class'] for e in ev if e['event'] == 'Send'}
        nn = 0
        for rid, k in sent.items():
            if k not in nexp:
                continue
            nn += 1
            if rid not in resp:
                findings.append({'prop': 'C20', 'kind': 'unanswered', 'case': 0, 'detail': f'a {k} request in the near-identical-payload session was never answered', 'input': json.dumps(ncls[k])[:500], 'data': {}})
                continue
            kind_, dg = digest_of(resp[rid])
            if kind_ != 'result' or dg != nexp[k]:
                for pr in ('C20', 'C14'):
                    findings.append({'prop': pr, 'kind': 'mcp_history_dependent', 'case': 0, 'input': json.dumps(ncls[k])[:500], 'data': {},
                                     'detail': f'request #{rid} ({k}) of a session of near-identical ledgers is not answered with what the CLI computes for its own text '
                                               f'(answers depend on an earlier request of the session)'})
                break
        # ---- C07 through the MCP front-end: 5/6 April and leap days; expected tax years come from MC_Calendar (TLC)
        cal = tlc('MC_Calendar', os.path.join('cfg', 'MC_Calendar.cfg'), workers=8, timeout=3000)
        want = {}
        with open(cal['out'], errors='replace') as f:
            for line in f:
                if line.startswith('<<"DAY", '):
                    p_ = line.strip()[len('<<"DAY", '):-2].split(', ')
                    if p_[5] == 'TRUE' and 2015 <= int(p_[1]) <= 2025 and (p_[2], p_[3]) in (('4', '5'), ('4', '6'), ('2', '29'), ('12', '31'), ('1', '1')):
                        want[f'{int(p_[1]):04d}-{int(p_[2]):02d}-{int(p_[3]):02d}'] = int(p_[4])
        bcls, order = dict(cls), []
        for d, ty in sorted(want.items()):
            if not (2014 <= ty <= 2025):
                continue
            led = f'{int(d[:4]) - 1}-06-01 BUY VOD 10 @ 1\n{d} SELL VOD 2 @ 3\n'
            bcls[f'bx_{d}'] = call('explain_matching', {'transactions': led, 'disposal_date': d, 'ticker': 'VOD'})
            bcls[f'by_{d}'] = call('calculate_report', {'transactions': led, 'year': ty})
            bcls[f'bp_{d}'] = call('calculate_report', {'transactions': led, 'year': ty - 1}) if ty - 1 >= 2014 else None
            order.append(d)
        bcls = {k: v for k, v in bcls.items() if v is not None}
        script = []
        for d in order:
            script += [('send', k) for k in (f'bx_{d}', f'by_{d}', f'bp_{d}') if k in bcls]
        ev, resp = play(root, 'boundary', script, bcls, patience=40)
        sent = {e['id']: e['class'] for e in ev if e['event'] == 'Send'}
        nb = 0
        for rid, k in sent.items():
            if not k.startswith('b') or k[1] not in 'xyp' or k[2] != '_':
                continue
            nb += 1
            d = k[3:]
            if rid not in resp:
                findings.append({'prop': 'C20', 'kind': 'unanswered', 'case': 0, 'input': k, 'data': {}, 'detail': f'boundary request {k} was never answered'})
                continue
            kind_, _ = digest_of(resp[rid])
            txt = resp[rid].get('result', {}).get('content', [{}])[0].get('text', '') if kind_ == 'result' else ''
            if k.startswith('bx_') and kind_ != 'result':
                # a matter of tax years (C07), of front-ends listing the same disposals (C17) and of explain covering every listed disposal (C20)
                for pr in ('C07', 'C17', 'C20'):
                    findings.append({'prop': pr, 'kind': 'mcp_explain_boundary', 'case': 0, 'input': d, 'data': {},
                                     'detail': f'explain_matching cannot find the disposal of {d} (tax year {want[d]}/{(want[d] + 1) % 100:02d}) that calculate_report lists: {json.dumps(resp[rid])[:200]}'})
            if k.startswith('by_') and (kind_ != 'result' or f'"date": "{d}"' not in txt):
                findings.append({'prop': 'C07', 'kind': 'mcp_year_boundary', 'case': 0, 'input': d, 'data': {},
                                 'detail': f'calculate_report(year={want[d]}) does not list the disposal of {d}'})
            if k.startswith('bp_') and kind_ == 'result' and f'"date": "{d}"' in txt:
                findings.append({'prop': 'C07', 'kind': 'mcp_year_boundary', 'case': 0, 'input': d, 'data': {},
                                 'detail': f'calculate_report(year={want[d] - 1}) lists the disposal of {d}, which belongs to {want[d]}'})
        log(f'[mcp] {nb} boundary-date requests (5/6 April, leap days, year ends 2015-2025) through the real server')
        # ---- C08 through the MCP front-end: get_fx_rate for a spread of currencies and months (incl. the first and last
        # bundled month, lower-case codes, a month without rates, an unknown currency, month 13): the bundled XML text decides
        import re as _re
        rates_dir = os.path.join(common.REPO, 'crates/cgt-money/resources/rates')
        months = sorted(f[:-4] for f in os.listdir(rates_dir) if f.endswith('.xml'))
        probes = [('USD', months[0]), ('usd', months[-1]), ('EUR', months[len(months) // 2]), ('jpy', months[len(months) // 3]), ('CHF', '2024-02'),
                  ('AUD', '2020-02'), ('USD', '2031-04'), ('XXX', '2024-01'), ('USD', '2024-13'), ('EUR', '2024-00')]
        fcls, script = dict(cls), []
        for i_, (cur, ym) in enumerate(probes):
            fcls[f'fxp_{i_}'] = call('get_fx_rate', {'currency': cur, 'year': int(ym[:4]), 'month': int(ym[5:])})
            script.append(('send', f'fxp_{i_}'))
        ev, resp = play(root, 'fxprobe', script, fcls, patience=20)
        sent = {e['id']: e['class'] for e in ev if e['event'] == 'Send'}
        for rid, k in sent.items():
            if not k.startswith('fxp_'):
                continue
            cur, ym = probes[int(k[4:])]
            want = None
            path = os.path.join(rates_dir, ym + '.xml')
            if os.path.exists(path):
                found = _re.findall(r'<currencyCode>%s</currencyCode>\s*<rateNew>([0-9.]+)</rateNew>' % cur.upper(), open(path).read())
                want = set(found) or None          # HMRC occasionally lists a currency twice in a month: either is the bundled rate
            if rid not in resp:
                findings.append({'prop': 'C20', 'kind': 'unanswered', 'case': 0, 'input': k, 'data': {'class': k}, 'detail': f'get_fx_rate {cur} {ym} was never answered'})
                continue
            kind_, _ = digest_of(resp[rid])
            if want is None:
                if kind_ != 'error':
                    findings.append({'prop': 'C08', 'kind': 'mcp_fx_rate', 'case': 0, 'input': f'get_fx_rate {cur} {ym}', 'data': {},
                                     'detail': f'get_fx_rate {cur} {ym}: no bundled rate exists, yet the server answered {json.dumps(resp[rid])[:200]}'})
                continue
            try:
                got = json.loads(resp[rid]['result']['content'][0]['text'])
                ok_ = any(Decimal(got['rate']) == Decimal(w) for w in want) and got.get('period') == ym and got.get('currency') == cur.upper()
            except Exception:
                got, ok_ = resp[rid], False
            if not ok_:
                findings.append({'prop': 'C08', 'kind': 'mcp_fx_rate', 'case': 0, 'input': f'get_fx_rate {cur} {ym}', 'data': {},
                                 'detail': f'get_fx_rate {cur} {ym} returned {json.dumps(got)[:200]}; the bundled file says {sorted(want)}'})
        log(f'[mcp] {len(probes)} get_fx_rate probes against the bundled XML text')
        # ---- malformed JSON whose offending line is long and full of multi-byte text, the error in the middle of the
        # line, at every byte alignment (anything that cuts the line at a fixed byte offset splits a character)
        wcls, script = dict(cls), []
        tools = ('parse_transactions', 'calculate_report', 'convert_to_dsl', 'explain_matching')
        for k in range(36):
            note = 'куплено на закрытии торгов ' * 3 + 'é€' * 20 + 'x' * k
            bad = ('[{"date":"2024-01-15","ticker":"GLE","action":"BUY","amount":"100","price":"24.50","note":"' + note + '"},'
                   '{"date":"2024-06-20","ticker":"GLE","action":"SELL","amount":"5' + '0' * (k % 4) + '"},{"note":"' + 'дивиденды € ' * 20 + '"}]')
            if k >= 6:
                # an unknown action in the middle of one object: multi-byte text shortly before (ticker) and shortly after
                # (note) the error, each shifted byte by byte, so that a window of any fixed width around the error column
                # starts or ends inside a character
                a, b = k % 6, (k * 5 + k // 6) % 7
                wide = 'д' * 45 if k % 2 == 0 else '€' * 30      # 2- and 3-byte characters
                bad = ('[{"date":"2024-01-15","ticker":"' + wide + 'x' * a + '","action":"HOLD","note":"' + 'y' * b + ('€é' * 40 if k % 3 else '€' * 60) + '"}]')
            args = {'transactions': bad}
            if tools[k % 4] == 'explain_matching':
                args.update({'disposal_date': '2024-06-20', 'ticker': 'GLE'})
            wcls[f'wide_{k}'] = call(tools[k % 4], args)
            script.append(('send', f'wide_{k}'))
        script.append(('send', 'parse'))
        ev, resp = play(root, 'wide', script, wcls, patience=20)
        sent = {e['id']: e['class'] for e in ev if e['event'] == 'Send'}
        for rid, k in sent.items():
            if rid not in resp:
                findings.append({'prop': 'C20', 'kind': 'unanswered', 'case': 0, 'input': json.dumps(wcls[k])[:3000], 'data': {'class': k},
                                 'detail': f'request {k} (malformed JSON on a long line of multi-byte text) was never answered'})
            elif k.startswith('wide_') and digest_of(resp[rid])[0] != 'error':
                findings.append({'prop': 'C20', 'kind': 'malformed_accepted', 'case': 0, 'input': json.dumps(wcls[k])[:3000], 'data': {'class': k},
                                 'detail': f'request {k} carries malformed transactions but was answered with a result'})
        log(f'[mcp] {len(script) - 1} malformed-JSON requests with the error at every byte alignment of a multi-byte line')
        # ---- a burst: 150 explain_matching calls in flight at once (plus a calculation and a rate look-up): every one answered
        # (on a ledger of 480 lines, so that many calls are really in flight together)
        big, bdisp = [], []
        for i_ in range(120):
            t_ = f'S{i_:03d}'
            big += [f'2021-02-{1 + i_ % 20:02d} BUY {t_} 10 @ {3 + i_ % 7}', f'2021-06-{1 + i_ % 25:02d} SELL {t_} 4 @ {5 + i_ % 5} FEES 1',
                    f'2021-06-{3 + i_ % 25:02d} BUY {t_} 2 @ {4 + i_ % 3}', f'2022-0{1 + i_ % 9}-11 SELL {t_} 3 @ {6 + i_ % 4}']
            bdisp.append((f'2021-06-{1 + i_ % 25:02d}', t_))
            bdisp.append((f'2022-0{1 + i_ % 9}-11', t_))
        bigtext = '\n'.join(big) + '\n'
        bcls2 = dict(cls)
        for i_, (d_, t_) in enumerate(bdisp):
            bcls2[f'bigx_{i_}'] = call('explain_matching', {'transactions': bigtext, 'disposal_date': d_, 'ticker': t_})
        bcls2['bigcalc'] = call('calculate_report', {'transactions': bigtext})
        script = [('send', f'bigx_{i_}') for i_ in range(len(bdisp))] + [('send', 'bigcalc'), ('send', 'calc_all'), ('send', 'fx')]
        script += [('send', f'explain_{i % len(DISPOSALS)}') for i in range(40)]
        ev, resp = play(root, 'burst', script, bcls2, patience=120)
        sent = {e['id']: e['class'] for e in ev if e['event'] == 'Send'}
        missing = [rid for rid in sent if rid not in resp]
        if missing:
            findings.append({'prop': 'C20', 'kind': 'unanswered', 'case': 0, 'input': f'{len(script)} pipelined requests', 'data': {'class': 'burst'},
                             'detail': f'{len(missing)} of {len(script)} requests sent in one burst (280 explain_matching on ledgers of 13 and 480 lines, calculate_report, get_fx_rate) were never answered'})
        else:
            wrong = [sent[rid] for rid in sent if (sent[rid] in expect and digest_of(resp[rid])[0] != expect[sent[rid]]['kind']) or (sent[rid].startswith('big') and digest_of(resp[rid])[0] != 'result')]
            if wrong:
                findings.append({'prop': 'C20', 'kind': 'burst_answers', 'case': 0, 'input': f'{len(script)} pipelined requests', 'data': {},
                                 'detail': f'in a burst of {len(script)} requests, {len(wrong)} were answered with the wrong kind of response: {sorted(set(wrong))[:5]}'})
        log(f'[mcp] burst of {len(script)} pipelined requests: {len(script) - len(missing)} answered')
        # ---- known: a panicking calculation is never answered
        ev, resp = play(root, 'ovf', [('send', 'overflow'), ('send', 'calc_all')], cls, patience=12)
        if 2 not in resp:
            findings.append({'prop': 'C20', 'kind': 'unanswered_panic', 'case': 0, 'input': OVERFLOW, 'data': {'class': 'overflow'},
                             'detail': 'a calculate_report request whose calculation panics (Decimal overflow) is never answered'})
        if 3 not in resp:
            findings.append({'prop': 'C20', 'kind': 'unanswered', 'case': 0, 'input': G1, 'data': {},
                             'detail': 'a well-formed request pipelined after a panicking one was never answered'})
        # ---- a request with a method outside the protocol must still be answered (JSON-RPC "method not found")
        ev, resp = play(root, 'unkm', [('send', 'unknown_method'), ('send', 'tools_list')], cls, patience=12)
        if 2 not in resp:
            findings.append({'prop': 'C20', 'kind': 'unknown_method_unanswered', 'case': 0, 'input': json.dumps(cls['unknown_method']), 'data': {'class': 'unknown_method'},
                             'detail': 'a request whose method is not part of the protocol ("frobnicate/now") is never answered, not even with a JSON-RPC error'})
        elif digest_of(resp[2])[0] != 'error':
            findings.append({'prop': 'C20', 'kind': 'unknown_method_result', 'case': 0, 'input': json.dumps(cls['unknown_method']), 'data': {},
                             'detail': 'a request with an unknown method was answered with a result'})
        if 3 not in resp:
            findings.append({'prop': 'C20', 'kind': 'unanswered', 'case': 0, 'input': 'tools/list after an unknown method', 'data': {},
                             'detail': 'a well-formed request sent after an unknown-method request was never answered'})
        # ---- known: an undecodable frame ends the session
        ev, resp = play(root, 'garbage', [('send', 'calc_all'), ('drain',), ('raw', 'this is not json\n'), ('send', 'parse')], cls, patience=12)
        if 3 not in resp:
            findings.append({'prop': 'C20', 'kind': 'undecodable_frame_ends_session', 'case': 0, 'input': 'this is not json', 'data': {},
                             'detail': 'after a line that is not JSON the server stops answering (the request that follows gets no response)'})
        mc = tlc('MC_Mcp', os.path.join('cfg', 'MC_Mcp.cfg'), workers=4, timeout=600)
        log(f'[tlc] MC_Mcp: {mc["states"]} distinct states, safety + liveness ({"cached" if mc["cached"] else str(mc["wall_s"]) + "s"})')
        cov = {'states': m['states'] + mc['states'], 'transitions': m['transitions'] + mc['transitions'], 'traces_validated_against_impl': len(scripts) + len(solo),
               'evaluations': len(events), 'distinct_nontrivial': overlapping,
               'rule': 'sessions played against the real `cgt-tool mcp` process over pipes: every request class alone, seeded ordered pairs pipelined and drained, '
                       'random pipelines of 6-16 requests with notifications, all classes at once in both orders; each recorded Send/Recv/Close/Exit '
                       'trace is validated by TLC against Mcp.tla (McpTrace.tla); expected payload digests come from the CLI (calculations, parsing) '
                       'or a solitary call; non-trivial = sessions with at least two requests in flight at once',
               'samples': [json.dumps(scripts[len(names) + 1]), json.dumps(events[1:8])], 'exhaustive': False,
               'request_classes': len(names), 'sessions': len(scripts), 'events': len(events)}
        return {'findings': findings, 'coverage': cov,
                'assumptions': [f'MC_Mcp.cfg model-checks Mcp.tla (3 classes, 4 messages, all interleavings; safety + liveness under weak fairness): {mc["states"]} distinct states',
                                'self-tests: a trace with one corrupted payload digest and a trace with one dropped response are both rejected by McpTrace',
                                'response order is decided by the server: the schedules seen are sampled, not enumerated']}
    finally:
        shutil.rmtree(root, ignore_errors=True)
