"""Shared plumbing for the /verif checks: build, TLC runs, harness runs, known findings, evidence."""
import hashlib, json, os, re, subprocess, sys, time, glob, shutil

VERIF = os.path.abspath(os.path.join(os.path.dirname(os.path.abspath(__file__)), '..', '..'))
REPO = os.environ.get('VERIF_REPO', '/repo')
SPEC = os.path.join(VERIF, 'spec')
HARNESS = os.path.join(VERIF, 'harness')
CACHE = os.path.join(VERIF, '.cache')
WORK = os.path.join(VERIF, 'work')
REPLAYS = os.path.join(VERIF, 'replays')
TLA_CP = '/opt/veriftools/tla/tla2tools.jar:/opt/veriftools/tla/CommunityModules-deps.jar'
CGT_TOOL = os.path.join(HARNESS, 'target', 'repo', 'debug', 'cgt-tool')


class ToolError(Exception):
    pass


def log(*a):
    print(*a, file=sys.stderr, flush=True)


def run(cmd, timeout=None, cwd=None, env=None, stdout=None, check=False):
    e = dict(os.environ)
    e.setdefault('CARGO_NET_OFFLINE', 'true')
    if env:
        e.update(env)
    return subprocess.run(cmd, cwd=cwd, env=e, timeout=timeout, stdout=stdout,
                          stderr=subprocess.STDOUT if stdout is not None else None, check=check)


_built = set()


def build_harness():
    """(Re)build the harness against /repo's current working tree (incremental)."""
    if 'harness' in _built:
        return
    lock = os.path.join(HARNESS, 'Cargo.lock')
    if not os.path.exists(lock):
        shutil.copy(os.path.join(REPO, 'Cargo.lock'), lock)
    t = time.time()
    p = subprocess.run(['cargo', 'build', '--offline', '--quiet'], cwd=HARNESS,
                       stdout=subprocess.PIPE, stderr=subprocess.STDOUT, text=True,
                       env=dict(os.environ, CARGO_NET_OFFLINE='true'))
    if p.returncode != 0:
        log(p.stdout[-4000:])
        raise ToolError('harness build failed (does /repo still compile?)')
    log(f'[build] harness up to date ({time.time()-t:.1f}s)')
    _built.add('harness')


def build_cli():
    """(Re)build the cgt-tool binary from /repo's working tree into the harness target dir."""
    if 'cli' in _built:
        return
    t = time.time()
    p = subprocess.run(['cargo', 'build', '--offline', '--quiet', '--manifest-path', os.path.join(REPO, 'Cargo.toml'),
                        '-p', 'cgt-cli', '--target-dir', os.path.join(HARNESS, 'target', 'repo')],
                       stdout=subprocess.PIPE, stderr=subprocess.STDOUT, text=True,
                       env=dict(os.environ, CARGO_NET_OFFLINE='true'))
    if p.returncode != 0:
        log(p.stdout[-4000:])
        raise ToolError('cgt-tool build failed')
    log(f'[build] cgt-tool up to date ({time.time()-t:.1f}s)')
    _built.add('cli')


def hbin(name):
    return os.path.join(HARNESS, 'target', 'debug', name)


_DEP = re.compile(r'^\s*(?:EXTENDS|LOCAL\s+INSTANCE|INSTANCE)\s+(.*)$', re.M)
_INST = re.compile(r'==\s*INSTANCE\s+(\w+)')


def spec_closure(module):
    """The user modules a module depends on (EXTENDS / INSTANCE), transitively."""
    seen, todo = [], [module]
    while todo:
        m = todo.pop()
        p = os.path.join(SPEC, m + '.tla')
        if m in seen or not os.path.exists(p):
            continue
        seen.append(m)
        txt = open(p).read()
        for line in _DEP.findall(txt):
            for name in re.split(r'[,\s]+', line.split('WITH')[0]):
                if name:
                    todo.append(name)
        todo += _INST.findall(txt)
    return sorted(seen)


def _spec_digest(module, cfg_text, extra):
    h = hashlib.sha256()
    for m in spec_closure(module):
        f = os.path.join(SPEC, m + '.tla')
        h.update(os.path.basename(f).encode())
        h.update(open(f, 'rb').read())
    h.update(module.encode())
    h.update(cfg_text.encode())
    h.update(json.dumps(extra, sort_keys=True).encode())
    return h.hexdigest()[:24]


_STATS = re.compile(r'(\d+) states generated, (\d+) distinct states found')
_DEPTH = re.compile(r'The depth of the complete state graph search is (\d+)')


def tlc(module, cfg, workers=8, timeout=1800, simulate=None, seed=None, env=None, cache=True, jvm=None, coverage=False,
        deadlock=False, allow_fail=False, depth=None):
    """Run TLC on spec/<module>.tla with spec/<cfg> (a file name or literal cfg text).
    Returns dict(out=path, states=distinct, transitions=generated, depth, cached, wall_s).
    TLC's result depends only on the specification, never on /repo, so complete runs are cached
    by a digest of all spec files + cfg + arguments (+ the environment TLC reads)."""
    if os.path.exists(os.path.join(SPEC, cfg)):
        cfg_path = os.path.join(SPEC, cfg)
        cfg_text = open(cfg_path).read()
    else:
        cfg_text = cfg
        cfg_path = None
    extra = {'workers': workers if simulate else 0, 'simulate': simulate, 'seed': seed if simulate else None,
             'depth': depth, 'env': {k: (hashlib.sha256(open(v, 'rb').read()).hexdigest() if os.path.isfile(v) else v)
                     for k, v in (env or {}).items()}, 'jvm': jvm, 'cov': coverage}
    key = _spec_digest(module, cfg_text, extra)
    cdir = os.path.join(CACHE, 'tlc', f'{module}-{key}')
    out = os.path.join(cdir, 'out.txt')
    meta = os.path.join(cdir, 'meta.json')
    if cache and os.path.exists(meta):
        m = json.load(open(meta))
        m['cached'] = True
        m['out'] = out
        return m
    os.makedirs(cdir, exist_ok=True)
    if cfg_path is None:
        cfg_path = os.path.join(cdir, 'model.cfg')
        open(cfg_path, 'w').write(cfg_text)
    metadir = os.path.join(cdir, 'states')
    cmd = ['java', '-XX:+UseParallelGC', '-Xmx12g'] + (jvm or []) + ['-cp', TLA_CP, 'tlc2.TLC',
           '-workers', str(workers), '-metadir', metadir, '-cleanup', '-noGenerateSpecTE']
    if not deadlock:
        pass
    if coverage:
        cmd += ['-coverage', '1']
    if simulate:
        cmd += ['-simulate', simulate]
        if depth:
            cmd += ['-depth', str(depth)]
        if seed is not None:
            cmd += ['-seed', str(seed)]
    cmd += ['-config', cfg_path, os.path.join(SPEC, module + '.tla')]
    t = time.time()
    e = dict(os.environ)
    if env:
        e.update(env)
    with open(out, 'w') as fo:
        try:
            p = subprocess.run(cmd, stdout=fo, stderr=subprocess.STDOUT, timeout=timeout, env=e, cwd=cdir)
            rc = p.returncode
        except subprocess.TimeoutExpired:
            rc = 'timeout'
    wall = time.time() - t
    shutil.rmtree(metadir, ignore_errors=True)
    txt = tail_nonreplay(out)
    m = {'out': out, 'states': 0, 'transitions': 0, 'depth': 0, 'cached': False, 'wall_s': round(wall, 1), 'rc': rc}
    s = _STATS.findall(txt)
    if s:
        m['transitions'], m['states'] = int(s[-1][0]), int(s[-1][1])
    if simulate:
        g = re.findall(r'The number of states generated: (\d+)', txt)
        if g:
            m['transitions'] = m['states'] = int(g[-1])
    d = _DEPTH.findall(txt)
    if d:
        m['depth'] = int(d[-1])
    ok = (rc == 0 and 'No error has been found' in txt) or (simulate and rc in (0,) )
    if simulate and rc == 'timeout':
        ok = False
    if not ok and allow_fail:
        m['failed'] = True
        return m
    if not ok:
        log(txt[-3000:])
        shutil.rmtree(cdir, ignore_errors=True) if False else None
        m['error'] = txt[-3000:]
        # keep the log for inspection but never cache a failed run
        raise ToolError(f'TLC failed on {module} / {os.path.basename(cfg_path)} (rc={rc}); log: {out}')
    m['cfgname'] = os.path.basename(cfg_path)
    json.dump(m, open(meta, 'w'))
    _prune_cache(module, cdir, m['cfgname'], simulate)
    return m


def _prune_cache(module, keep, cfgname, simulate):
    """Drop superseded cache entries: older results of the same module + cfg name (the specification changed),
    and uncached leftovers (no meta.json) of the same module older than an hour."""
    root = os.path.join(CACHE, 'tlc')
    for d in os.listdir(root):
        full = os.path.join(root, d)
        if full == keep or not d.startswith(module + '-'):
            continue
        mp = os.path.join(full, 'meta.json')
        try:
            if os.path.exists(mp):
                mm = json.load(open(mp))
                if mm.get('cfgname') == cfgname and cfgname != 'model.cfg' and not simulate and time.time() - os.path.getmtime(mp) > 600:
                    shutil.rmtree(full, ignore_errors=True)
            elif time.time() - os.path.getmtime(full) > 3600:
                shutil.rmtree(full, ignore_errors=True)
        except (OSError, ValueError):
            pass


def tail_nonreplay(path, limit=200000):
    """The non-data part of a TLC log (skips the PrintT payload lines)."""
    keep = []
    n = 0
    with open(path, errors='replace') as f:
        for line in f:
            if line.startswith('<<"'):
                continue
            keep.append(line)
            n += len(line)
            if n > limit:
                keep = keep[-2000:]
                n = sum(len(x) for x in keep)
    return ''.join(keep)


def harness(binname, args, timeout=3600):
    """Run a harness binary; it prints one JSON summary line on stdout; findings go to the --out file."""
    build_harness()
    p = subprocess.run([hbin(binname)] + args, stdout=subprocess.PIPE, stderr=subprocess.PIPE, text=True, timeout=timeout)
    if p.returncode != 0:
        log(p.stderr[-3000:])
        raise ToolError(f'harness {binname} failed rc={p.returncode}')
    last = [l for l in p.stdout.splitlines() if l.strip()]
    if not last:
        raise ToolError(f'harness {binname} printed nothing')
    return json.loads(last[-1])


def read_ndjson(path):
    out = []
    if not os.path.exists(path):
        return out
    with open(path) as f:
        for l in f:
            l = l.strip()
            if l:
                out.append(json.loads(l))
    return out


def workdir(name):
    d = os.path.join(WORK, name)
    os.makedirs(d, exist_ok=True)
    return d
