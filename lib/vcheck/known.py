"""Known findings: genuine defects of cgt-tool recorded rather than repaired.

/verif/KNOWN_FINDINGS.json lists them; a violation is suppressed only when the code-defined
signature predicate of a `known` entry (below, keyed by entry id) matches it.  `fixed`
entries suppress nothing.  The file is never written at run time."""
import json, os, re
from .common import VERIF

PREDICATES = {}


def predicate(kid):
    def deco(f):
        PREDICATES[kid] = f
        return f
    return deco


def load():
    p = os.path.join(VERIF, 'KNOWN_FINDINGS.json')
    if not os.path.exists(p):
        return []
    return json.load(open(p)).get('findings', [])


def classify(prop, finding):
    """Return the id of the known finding that explains this violation, or None."""
    for k in load():
        if k.get('status') != 'known' or k.get('property') != prop:
            continue
        f = PREDICATES.get(k['id'])
        if f and f(finding):
            return k['id']
    return None
