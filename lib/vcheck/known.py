"""Known findings: genuine defects of cgt-tool recorded rather than repaired.

/verif/KNOWN_FINDINGS.json lists them; a violation is suppressed only when the code-defined
signature predicate of a `known` entry (below, keyed by entry id) matches it.  `fixed`
entries suppress nothing.  The file is never written at run time."""
import json, os, re
from .common import VERIF

PREDICATES = {}


def predicate(kid):
    def deco(f):
        PREDICATES[kid] = f
        return f
    return deco


def load():
    p = os.path.join(VERIF, 'KNOWN_FINDINGS.json')
    if not os.path.exists(p):
        return []
    return json.load(open(p)).get('findings', [])


def classify(prop, finding):
    """Return the id of the known finding that explains this violation, or None."""
    for k in load():
        if k.get('status') != 'known' or k.get('property') != prop:
            continue
        f = PREDICATES.get(k['id'])
        if f and f(finding):
            return k['id']
    return None


def _dsl_lines(text):
    out = []
    for l in text.splitlines():
        p = l.split()
        if len(p) >= 3 and re.match(r'\d{4}-\d{2}-\d{2}$', p[0]):
            out.append((p[0], p[1].upper(), p[2].upper()))
    return out


@predicate('D14b')
def _d14b(f):
    return _d14(f)


@predicate('D14c')
def _d14c(f):
    return _d14(f)


@predicate('D14')
def _d14(f):
    """Non-adjacent same-day SELL lines of one security stay separate sales (per-leg gain split differs)."""
    if f.get('kind') != 'leg_gain_apportionment':
        return False
    lines = _dsl_lines(f.get('input', ''))
    lines.sort(key=lambda x: x[0])      # stable, like the matcher's date sort
    last = {}
    for i, (d, op, t) in enumerate(lines):
        if op != 'SELL':
            continue
        j = last.get((d, t))
        if j is not None and j != i - 1:
            return True
        last[(d, t)] = i
    return False


@predicate('D8')
def _d8(f):
    """rust_decimal overflow panic on a ledger with a magnitude >= 10^14."""
    if f.get('kind') not in ('panic', 'crash'):
        return False
    if not re.search(r'(Addition|Multiplication|Division|Subtraction) overflowed', f.get('detail', '')):
        return False
    return re.search(r'(?<![\d.])\d{15,}', f.get('input', '')) is not None


@predicate('D11')
def _d11(f):
    return f.get('kind') == 'unanswered_panic' and f.get('data', {}).get('class') == 'overflow'


@predicate('D12')
def _d12(f):
    return f.get('kind') == 'undecodable_frame_ends_session' and 'not json' in f.get('input', '')


@predicate('D16')
def _d16(f):
    return f.get('kind') == 'unknown_method_unanswered' and f.get('data', {}).get('class') == 'unknown_method'


@predicate('D4')
def _d4(f):
    """Covered sale refused by a decimal residue: the stated shortfall is below 1e-15 shares."""
    if f.get('kind') != 'covered_refused':
        return False
    from decimal import Decimal
    msg = f.get('data', {}).get('message') or f.get('detail', '')
    m = re.search(r'disposal of ([0-9.]+) shares exceeds holding of ([0-9.]+)', msg)
    if m:
        return Decimal(0) < Decimal(m.group(1)) - Decimal(m.group(2)) < Decimal('1e-15')
    m = re.search(r'unmatched ([0-9.]+)', msg)
    return bool(m) and Decimal(0) < Decimal(m.group(1)) < Decimal('1e-15')


@predicate('D19')
def _d19(f):
    """Cost event added to the whole-lot cost of a part-sold acquisition: leaks onto shares sold before the event."""
    if f.get('kind') == 'event_changes_earlier_disposal':
        return True
    if f.get('kind') == 'variant_status' and 'EventsSplit' in f.get('data', {}).get('variant', ''):
        if 'canonical rendering gives err' not in f.get('detail', '') or not f.get('detail', '').endswith('gives ok'):
            return False
        lines = _dsl_lines(f.get('input', ''))
        ev = [d for d, op, t in lines if op == 'CAPRETURN']
        return bool(ev) and any(op == 'SELL' and d < min(ev) for d, op, t in lines)
    return False
