"""./bin/check <property> [--tier quick|thorough] [--replay path]"""
import json, os, sys, time, traceback
from . import common, known
from .common import log, ToolError, VERIF, REPLAYS


def write_evidence(prop, tier, seed, cov, assumptions, wall, violations):
    os.makedirs(os.path.join(VERIF, 'evidence'), exist_ok=True)
    ev = {'property_id': prop, 'tier': tier, 'seed': seed, 'level': 'model_checking', 'coverage': cov,
          'assumptions': assumptions, 'wall_s': round(wall, 1), 'violations': violations}
    with open(os.path.join(VERIF, 'evidence', f'{prop}.json'), 'w') as f:
        json.dump(ev, f, indent=1, sort_keys=True)
        f.write('\n')


def main(argv):
    from . import props
    if not argv:
        print('usage: check <property> [--tier quick|thorough] [--replay path]')
        return 2
    prop = argv[0]
    tier = os.environ.get('VERIF_TIER', 'quick')
    replay = None
    i = 1
    while i < len(argv):
        if argv[i] == '--tier':
            tier = argv[i + 1]; i += 1
        elif argv[i] == '--replay':
            replay = argv[i + 1]; i += 1
        elif argv[i] in ('quick', 'thorough'):
            tier = argv[i]
        i += 1
    if tier not in ('quick', 'thorough'):
        tier = 'quick'
    try:
        seed = int(os.environ.get('VERIF_SEED', '1'))
    except ValueError:
        seed = 1
    if prop not in props.PROPS:
        print(f'unknown property {prop}')
        return 2
    t0 = time.time()
    try:
        if replay:
            return props.replay(prop, replay)
        res = props.PROPS[prop](tier, seed)
    except ToolError as e:
        log(f'TOOL ERROR: {e}')
        return 2
    except Exception:
        traceback.print_exc()
        return 2
    findings = [f for f in res['findings'] if f['prop'] == prop]
    others = {}
    for f in res['findings']:
        if f['prop'] != prop:
            others[f['prop']] = others.get(f['prop'], 0) + 1
    new, knowns = [], {}
    for f in findings:
        k = known.classify(prop, f)
        if k:
            knowns.setdefault(k, []).append(f)
        else:
            new.append(f)
    for k, fs in sorted(knowns.items()):
        print(f'KNOWN-FINDING: property={prop} {k}: {fs[0]["detail"][:200]} ({len(fs)} occurrence(s))')
    cov = res['coverage']
    cov['findings_attributed_to_other_properties'] = others
    cov['known_finding_occurrences'] = {k: len(v) for k, v in knowns.items()}
    rc = 0
    if new:
        os.makedirs(REPLAYS, exist_ok=True)
        # one replay file per distinct kind (first = smallest input)
        bykind = {}
        for f in new:
            cur = bykind.get(f['kind'])
            if cur is None or len(f.get('input', '')) < len(cur.get('input', '')):
                bykind[f['kind']] = f
        for kind, f in sorted(bykind.items()):
            path = os.path.join(REPLAYS, f'{prop}-{kind}.json')
            f = dict(f)
            f['occurrences_of_this_kind'] = sum(1 for x in new if x['kind'] == kind)
            json.dump(f, open(path, 'w'), indent=1)
            print(f'VIOLATION property={prop} replay={path}')
            print(f'  {kind}: {f["detail"][:400]}')
        rc = 1
    write_evidence(prop, tier, seed, cov, res.get('assumptions', []), time.time() - t0, len(new))
    print(f'{prop} {tier}: {"VIOLATED" if rc else "held"} on everything explored '
          f'({cov.get("evaluations", 0)} evaluations, {cov.get("states", 0)} spec states, {time.time()-t0:.0f}s)')
    return rc
