"""Replays MC_Cli lines against the real cgt-tool binary: pipeline fault scenarios (C15), exemption
override layering (C04) and input-file partitions (C06)."""
import json, os, re, shutil, subprocess, tempfile
from concurrent.futures import ThreadPoolExecutor
from . import common
from .common import tlc, log, read_ndjson, workdir

OLD = b'OLD CONTENT\n'
GOOD = ('2020-06-01 BUY AAA 10 @ 5\n2020-07-01 SELL AAA 4 @ 8 FEES 1\n2020-07-15 BUY AAA 2 @ 6\n'
        '2021-06-10 DIVIDEND AAA TOTAL 3 TAX 1\n2021-09-01 SELL AAA 3 @ 4\n')
LEDGERS = {
    'parse_error': '2020-06-01 BUY AAA 10 @ 5\n2020-07-01 SELL AAA @ 8\n2020-07-15 BUY AAA 2 @ 6\n',
    'uncovered_sale': '2020-06-01 BUY AAA 10 @ 5\n2020-07-01 SELL AAA 40 @ 8\n',
    'missing_exemption': '2030-06-01 BUY AAA 10 @ 5\n2030-07-01 SELL AAA 4 @ 8\n',
    'missing_rate': '2031-01-05 BUY AAA 10 @ 5 USD\n2031-02-01 SELL AAA 4 @ 8\n',
    'unlisted_currency': '2024-01-15 BUY AAA 10 @ 5 GIP\n2024-02-01 SELL AAA 4 @ 8 FEES 1 XAU\n',
}
BAD_RATES = ('<?xml version="1.0" encoding="UTF-8"?>\n<exchangeRateMonthList Period="01/Feb/2024 to 29/Feb/2024">\n'
             '<exchangeRate><countryName>X</countryName><countryCode>XX</countryCode><currencyName>X</currencyName>'
             '<currencyCode>USD</currencyCode><rateNew>2</rateNew></exchangeRate>\n</exchangeRateMonthList>\n')
SCHWAB_OK = json.dumps({'FromDate': '01/01/2023', 'ToDate': '12/31/2023', 'TotalTransactionsAmount': '$0', 'BrokerageTransactions': [
    {'Date': '03/01/2023', 'Action': 'Buy', 'Symbol': 'XYZ', 'Description': 'X', 'Quantity': '10', 'Price': '$5.00', 'Fees & Comm': '$1.00', 'Amount': '-$51.00'},
    {'Date': '04/01/2023', 'Action': 'Sell', 'Symbol': 'XYZ', 'Description': 'X', 'Quantity': '4', 'Price': '$8.00', 'Fees & Comm': '', 'Amount': '$32.00'}]})
SCHWAB_RSU = json.dumps({'FromDate': '01/01/2023', 'ToDate': '12/31/2023', 'TotalTransactionsAmount': '$0', 'BrokerageTransactions': [
    {'Date': '03/01/2023', 'Action': 'Stock Plan Activity', 'Symbol': 'XYZ', 'Description': 'X', 'Quantity': '10', 'Price': '', 'Fees & Comm': '', 'Amount': ''}]})


def run(cwd, home, args, timeout=60):
    env = dict(os.environ, HOME=home)
    try:
        p = subprocess.run([common.CGT_TOOL] + args, cwd=cwd, env=env, stdout=subprocess.PIPE, stderr=subprocess.PIPE, timeout=timeout)
        return p.returncode, p.stdout, p.stderr
    except subprocess.TimeoutExpired:
        return 'timeout', b'', b''


def finding(prop, kind, detail, inp, case):
    return {'prop': prop, 'kind': kind, 'case': case, 'detail': detail, 'input': inp, 'data': {}}


def crashed(rc):
    return rc == 'timeout' or rc == 101 or (isinstance(rc, int) and (rc < 0 or rc >= 128))


def canon(v):
    if isinstance(v, str) and re.fullmatch(r'-?\d+(\.\d+)?', v):
        s = v
        if '.' in s:
            s = s.rstrip('0').rstrip('.')
        return s if s not in ('-0', '') else '0'
    if isinstance(v, list):
        return [canon(x) for x in v]
    if isinstance(v, dict):
        return {k: canon(x) for k, x in v.items()}
    return v


def report_core(stdout):
    try:
        j = json.loads(stdout)
    except Exception:
        return None
    return canon({'tax_years': j.get('tax_years'), 'holdings': j.get('holdings')})


# ------------------------------------------------------------------------------------------ pipeline (C15)

def stage_pipeline(i, rec, root):
    sc = rec['sc']
    d = os.path.join(root, f'p{i}')
    home = os.path.join(d, 'home')
    os.makedirs(home)
    fault = sc['fault']
    fs = []
    args = []
    target = None
    desc = json.dumps(sc)
    if sc['cmd'] in ('report', 'parse'):
        text = LEDGERS.get(fault, GOOD)
        inp = 'ledger.cgt'
        inputs = [inp]
        if sc['output'] == 'default2':
            # two input files: the first line in one, the rest in the other; the default PDF path is then report.pdf
            ls = text.splitlines(keepends=True)
            open(os.path.join(d, 'first.cgt'), 'w').write(ls[0])
            text = ''.join(ls[1:])
            inputs = ['first.cgt', inp]
        if fault != 'missing_input':
            open(os.path.join(d, inp), 'w').write(text)
        args = [sc['cmd']]
        if sc['cmd'] == 'report':
            args += ['--format', sc['format']]
            if fault == 'bad_fx_folder':
                os.makedirs(os.path.join(d, 'rates'))
                open(os.path.join(d, 'rates', '2024-01.xml'), 'w').write(BAD_RATES)
                args += ['--fx-folder', 'rates']
            if fault == 'bad_year':
                args += ['--year', '2147483647']
        if sc['output'] == 'file':
            target = 'nodir/out.bin' if fault == 'unwritable_output' else 'out.bin'
            args += ['--output', target]
        elif sc['output'] == 'default':
            target = 'ledger.pdf'
        elif sc['output'] == 'default2':
            target = 'report.pdf'
        args += inputs
    else:
        inp = 'tx.json'
        if fault != 'missing_input':
            open(os.path.join(d, inp), 'w').write('{not json' if fault == 'bad_export' else (SCHWAB_RSU if fault == 'rsu_without_awards' else SCHWAB_OK))
        args = ['convert', 'schwab', inp]
        if sc['output'] == 'file':
            target = 'nodir/out.cgt' if fault == 'unwritable_output' else 'out.cgt'
            args += ['--output', target]
    if target and sc['target'] == 'old':
        open(os.path.join(d, target), 'wb').write(OLD)
    rc, so, se = run(d, home, args)
    out = []
    inp_desc = f'{desc}\n$ cgt-tool {" ".join(args)}'
    if crashed(rc):
        out.append(finding('C15', 'crash', f'cgt-tool crashed or hung (exit {rc}): {se[-300:].decode(errors="replace")}', inp_desc, i))
        return out, 1
    ok = rc == 0
    if ok != (rec['exit'] == 'ok'):
        out.append(finding('C15', 'exit_status', f'exit status {rc}, the specification expects {rec["exit"]} ({se[-200:].decode(errors="replace")})', inp_desc, i))
        if fault == 'uncovered_sale':
            out.append(dict(out[-1], prop='C05'))
        return out, 1
    if rec['out'] == 'empty' and so.strip() != b'':
        out.append(finding('C15', 'stdout_on_failure' if not ok else 'stdout_unexpected', f'{len(so)} bytes on standard output; expected none: {so[:200]!r}', inp_desc, i))
    if rec['out'] == 'notice' and not so.startswith(b'PDF written to'):
        out.append(finding('C15', 'missing_notice', f'expected the "PDF written to" notice, got {so[:100]!r}', inp_desc, i))
    if not ok and not se.strip():
        out.append(finding('C15', 'silent_failure', 'non-zero exit without any error message', inp_desc, i))
    tp = os.path.join(d, target) if target else None
    cur = open(tp, 'rb').read() if tp and os.path.isfile(tp) else None
    if rec['target'] == 'absent' and cur is not None:
        out.append(finding('C15', 'stray_output_file', f'the run failed but left a file at {target} ({len(cur)} bytes)', inp_desc, i))
    if rec['target'] == 'old' and cur != OLD:
        out.append(finding('C15', 'output_clobbered', f'{target} existed before the run and must be untouched; now {None if cur is None else cur[:60]!r}', inp_desc, i))
    nruns = 1
    if rec['target'] == 'new' or rec['out'] == 'report':
        # completeness: the same command without --output prints the reference
        if sc['cmd'] == 'report' and sc['format'] == 'pdf':
            if cur is None or not cur.startswith(b'%PDF') or b'%%EOF' not in cur[-1024:]:
                out.append(finding('C15', 'incomplete_output', f'{target} is not a complete PDF', inp_desc, i))
        else:
            ref_args = [a for a in args]
            if '--output' in ref_args:
                k = ref_args.index('--output')
                del ref_args[k:k + 2]
            rc2, so2, _ = run(d, home, ref_args)
            nruns += 1
            got = cur if rec['target'] == 'new' else so
            mask = lambda b: re.sub(rb'# Converted: [^\n]*', b'# Converted: <t>', b or b'').strip()
            if rc2 != 0 or got is None or mask(got) != mask(so2) or not mask(got):
                out.append(finding('C15', 'incomplete_output', f'output differs from the reference run without --output ({len(got or b"")} vs {len(so2)} bytes)', inp_desc, i))
    # an uncovered sale must leave no report, partial or otherwise, from the CLI: that is C05's statement as well
    if fault == 'uncovered_sale':
        out += [dict(f, prop='C05') for f in out if f['prop'] == 'C15' and f['kind'] in ('exit_status', 'stdout_on_failure', 'stray_output_file', 'output_clobbered')]
    return out, nruns


# ------------------------------------------------------------------------------------------ layering (C04)

LAYER_LEDGER = ('2020-06-01 BUY AAA 100 @ 5\n2020-07-01 SELL AAA 10 @ 8\n2021-07-01 SELL AAA 10 @ 9\n2030-07-01 SELL AAA 10 @ 7\n')


def embedded_table():
    txt = open(os.path.join(common.REPO, 'crates/cgt-core/data/config.toml')).read()
    return {int(y): v for y, v in re.findall(r'"(\d{4})"\s*=\s*([0-9.]+)', txt)}


def toml_of(f):
    if f['kind'] == 'invalid':
        return 'this is [not toml\n'
    return '[exemptions]\n' + ''.join(f'"{y}" = {a}\n' for y, a in f['table'])


def stage_layering(i, rec, root, emb):
    d = os.path.join(root, f'l{i}')
    home = os.path.join(d, 'home')
    os.makedirs(os.path.join(home, '.config', 'cgt-tool'))
    open(os.path.join(d, 'ledger.cgt'), 'w').write(LAYER_LEDGER)
    if rec['cwd']['kind'] != 'absent':
        open(os.path.join(d, 'config.toml'), 'w').write(toml_of(rec['cwd']))
    if rec['home']['kind'] != 'absent':
        open(os.path.join(home, '.config', 'cgt-tool', 'config.toml'), 'w').write(toml_of(rec['home']))
    inp = f'cwd config: {rec["cwd"]}; home config: {rec["home"]}\n{LAYER_LEDGER}'
    expect = {}
    for y, v in rec['expect'].items():
        y = int(y)
        expect[y] = None if v == -1 else (emb.get(y) if v < 0 else str(v))
    out = []
    nruns = 0
    runs = [(None, sorted(expect))] + [(y, [y]) for y in sorted(expect)]
    for year, ys in runs:
        args = ['report', '--format', 'json'] + (['--year', str(year)] if year else []) + ['ledger.cgt']
        rc, so, se = run(d, home, args)
        nruns += 1
        if crashed(rc):
            out.append(finding('C15', 'crash', f'cgt-tool crashed (exit {rc})', inp, i))
            continue
        missing = [y for y in ys if expect[y] is None]
        label = f'--year {year}' if year else 'all years'
        if missing:
            if rc == 0:
                j = report_core(so) or {}
                shown = [(t.get('period'), t.get('exempt_amount')) for t in (j.get('tax_years') or [])]
                out.append(finding('C04', 'missing_exemption_accepted', f'{label}: tax year {missing} has no configured exemption after layering, yet a report was produced: {shown}', inp, i))
            elif so.strip():
                out.append(finding('C15', 'stdout_on_failure', f'{label}: output alongside a failure', inp, i))
            elif not any(str(y) in se.decode(errors='replace') for y in missing):
                out.append(finding('C04', 'missing_exemption_message', f'{label}: error does not name the year: {se[-200:]!r}', inp, i))
            continue
        if rc != 0:
            out.append(finding('C04', 'configured_year_refused', f'{label}: every needed year is configured after layering, yet the run failed: {se[-200:].decode(errors="replace")}', inp, i))
            continue
        j = json.loads(so)
        got = {int(t['period'][:4]): canon(t['exempt_amount']) for t in j['tax_years']}
        for y in ys:
            if got.get(y) != canon(str(expect[y])):
                out.append(finding('C04', 'exemption_layering', f'{label}: exemption for {y} is {got.get(y)}, expected {expect[y]} '
                                   f'(embedded table, then ./config.toml, then ~/.config/cgt-tool/config.toml; a later layer replaces exactly the years it lists)', inp, i))
    return out, nruns


# ------------------------------------------------------------------------------------------ partitions (C06)

PART_LINES = ['2020-06-01 BUY AAA 10 @ 5', '2020-06-20 SELL AAA 4 @ 8 FEES 1 # sold', '# a note', '2020-06-25 BUY AAA 3 @ 6', '2020-07-30 SELL AAA 2 @ 9']
EOL = {'lf': '\n', 'crlf': '\r\n', 'cr': '\r', 'none': ''}


def stage_partition(i, rec, root, ref):
    d = os.path.join(root, f'f{i}')
    home = os.path.join(d, 'home')
    os.makedirs(home)
    files = []
    desc = []
    for f in (1, 2, 3):
        ls = [PART_LINES[k] for k in range(len(PART_LINES)) if rec['assign'][k] == f]
        if not ls:
            continue
        e = rec['eol'][f - 1]
        sep = {'crlf': '\r\n', 'cr': '\r'}.get(e, '\n')
        body = sep.join(ls) + EOL[e]
        name = f'part{f}.cgt'
        open(os.path.join(d, name), 'w', newline='').write(body)
        files.append(name)
        desc.append(f'{name}: {body!r}')
    inp = '\n'.join(desc)
    rc, so, se = run(d, home, ['report', '--format', 'json'] + files)
    if crashed(rc):
        return [finding('C15', 'crash', f'cgt-tool crashed (exit {rc})', inp, i)], 1
    # with CR / CRLF endings the same deviation is also a C13 matter (line endings never change what is parsed)
    # ... and, seen from the report, a line lost or invented between files makes totals disagree with the ledger (C04)
    # and changes whether sales are covered (C05)
    # (a lost SELL line also means legs no longer add up to the shares sold, C02, and a lost BUY that cost vanishes, C03)
    props = ['C06', 'C02', 'C03', 'C04', 'C05'] + (['C13'] if any(x in ('cr', 'crlf') for x in rec['eol']) else [])
    if rc != 0:
        return [finding(p, 'partition_rejected', f'the ledger is accepted as one file but refused when split over {len(files)} files ({"/".join(rec["eol"])} line endings): {se[-300:].decode(errors="replace")}', inp, i) for p in props], 1
    if report_core(so) != ref:
        return [finding(p, 'partition_changes_report', f'the report for the ledger split over {len(files)} files ({"/".join(rec["eol"])} line endings) differs from the single-file report', inp, i) for p in props], 1
    return [], 1


# ------------------------------------------------------------------------------------------ parse echo (C13, C14)

# one line per command, every optional clause once present and once left out, written from the README syntax table;
# the expected transaction list is written out by hand (it is what Dsl.tla's Meaning gives for these lines)
PARSE_LINES = ['2020-06-01 buy aaa 10 @ 5 usd fees 1.5', '2020-07-01\tSELL  AAA 4 @ 8   # sold', '# a note', '2020-07-02 DIVIDEND AAA TOTAL 3 TAX 0.5 EUR',
               '2020-07-03 SPLIT AAA RATIO 2', '2020-07-04 CapReturn AAA 5 TOTAL 2.50 FEES 0', '2020-07-05 ACCUMULATION Bbb 5 TOTAL 2', '2020-07-06 UNSPLIT AAA RATIO 1.5']


def _m(a, c='GBP'):
    return {'amount': a, 'currency': c}


PARSE_EXPECT = [
    {'date': '2020-06-01', 'ticker': 'AAA', 'action': 'BUY', 'amount': '10', 'price': _m('5', 'USD'), 'fees': _m('1.5')},
    {'date': '2020-07-01', 'ticker': 'AAA', 'action': 'SELL', 'amount': '4', 'price': _m('8'), 'fees': _m('0')},
    {'date': '2020-07-02', 'ticker': 'AAA', 'action': 'DIVIDEND', 'total_value': _m('3'), 'tax_paid': _m('0.5', 'EUR')},
    {'date': '2020-07-03', 'ticker': 'AAA', 'action': 'SPLIT', 'ratio': '2'},
    {'date': '2020-07-04', 'ticker': 'AAA', 'action': 'CAPRETURN', 'amount': '5', 'total_value': _m('2.50'), 'fees': _m('0')},
    {'date': '2020-07-05', 'ticker': 'BBB', 'action': 'ACCUMULATION', 'amount': '5', 'total_value': _m('2'), 'tax_paid': _m('0')},
    {'date': '2020-07-06', 'ticker': 'AAA', 'action': 'UNSPLIT', 'ratio': '1.5'},
]


def stage_parse_echo(i, eol, root):
    d = os.path.join(root, f'e{i}')
    home = os.path.join(d, 'home')
    os.makedirs(home)
    sep = {'lf': '\n', 'crlf': '\r\n', 'cr': '\r'}[eol]
    text = sep.join(PARSE_LINES) + (sep if i % 2 == 0 else '')
    open(os.path.join(d, 'l.cgt'), 'w', newline='').write(text)
    rc, so, se = run(d, home, ['parse', 'l.cgt'])
    inp = repr(text)
    if crashed(rc):
        return [finding('C15', 'crash', f'cgt-tool parse crashed (exit {rc})', inp, i)], 1
    if rc != 0:
        return [finding(p, 'valid_rejected', f'cgt-tool parse refuses a valid file ({eol} line endings): {se[-300:].decode(errors="replace")}', inp, i) for p in ('C13',)], 1
    try:
        got = canon(json.loads(so))
    except Exception:
        return [finding('C15', 'incomplete_output', f'cgt-tool parse printed something that is not JSON: {so[:200]!r}', inp, i)], 1
    if got != canon(PARSE_EXPECT):
        k = next((j for j in range(min(len(got), len(PARSE_EXPECT))) if got[j] != canon(PARSE_EXPECT)[j]), min(len(got), len(PARSE_EXPECT)))
        return [finding(p, 'parse_echo', f'cgt-tool parse ({eol} line endings) lists {len(got)} transactions, expected {len(PARSE_EXPECT)}; first difference at #{k + 1}: '
                        f'{json.dumps(got[k]) if k < len(got) else None} vs {json.dumps(PARSE_EXPECT[k]) if k < len(PARSE_EXPECT) else None}', inp, i) for p in ('C13', 'C14')], 1
    return [], 1


# ------------------------------------------------------------------------------------------ driver

_cache = {}


def cli_family(tier):
    key = 'cli_' + tier
    if key in _cache:
        return _cache[key]
    m = tlc('MC_Cli', os.path.join('cfg', 'MC_Cli.cfg'), workers=4, timeout=600)
    log(f'[tlc] MC_Cli: {m["states"]} distinct states, {m["transitions"]} transitions ({"cached" if m["cached"] else str(m["wall_s"]) + "s"})')
    common.build_cli()
    recs = []
    with open(m['out'], errors='replace') as f:
        for line in f:
            if line.startswith('<<"CLI", "'):
                body = line.rstrip('\n')[len('<<"CLI", "'):-len('">>')]
                recs.append(json.loads(body.replace('\\"', '"').replace('\\\\', '\\')))
    pipes = [r for r in recs if r['kind'] == 'pipeline']
    layers = [r for r in recs if r['kind'] == 'layering']
    parts = [r for r in recs if r['kind'] == 'partition']
    if tier == 'quick':
        # one line-ending pattern per assignment, rotating through the patterns
        groups = {}
        for r in parts:
            groups.setdefault(tuple(r['assign']), []).append(r)
        parts = [sorted(rs, key=lambda r: r['eol'])[k % len(rs)] for k, (a, rs) in enumerate(sorted(groups.items()))]
    root = tempfile.mkdtemp(prefix='cgtv_cli_', dir=workdir('cli'))
    findings, runs = [], 0
    counters = {'pipeline_scenarios': len(pipes), 'layering_configs': len(layers), 'partitions': len(parts),
                'failing_scenarios': sum(1 for r in pipes if r['exit'] == 'fail')}
    try:
        emb = embedded_table()
        os.makedirs(os.path.join(root, 'ref', 'home'))
        open(os.path.join(root, 'ref', 'all.cgt'), 'w').write('\n'.join(PART_LINES) + '\n')
        rc, so, se = run(os.path.join(root, 'ref'), os.path.join(root, 'ref', 'home'), ['report', '--format', 'json', 'all.cgt'])
        ref = report_core(so)
        if rc != 0 or ref is None:
            raise common.ToolError(f'reference ledger for partitions does not report: {se[-300:]!r}')
        jobs = [(stage_pipeline, (i, r, root)) for i, r in enumerate(pipes)] + \
               [(stage_layering, (i, r, root, emb)) for i, r in enumerate(layers)] + \
               [(stage_partition, (i, r, root, ref)) for i, r in enumerate(parts)] + \
               [(stage_parse_echo, (i, eol, root)) for i, eol in enumerate(('lf', 'crlf', 'cr', 'cr', 'lf', 'crlf'))]
        with ThreadPoolExecutor(max_workers=16) as ex:
            for fs, n in ex.map(lambda j: j[0](*j[1]), jobs):
                findings += fs
                runs += n
    finally:
        shutil.rmtree(root, ignore_errors=True)
    counters['executions'] = runs
    samples = [json.dumps(pipes[0]['sc']), json.dumps(layers[7]), json.dumps(parts[5])]
    s = {'records': len(recs), 'findings': len(findings), 'counters': counters, 'samples': samples}
    log(f'[replay] MC_Cli: {len(pipes)} pipeline scenarios, {len(layers)} layering configs, {len(parts)} partitions, {runs} cgt-tool runs, {len(findings)} deviations')
    r = {'name': key, 'tlc': m, 'summary': s, 'findings': findings, 'obs': None}
    _cache[key] = r
    return r
