"""C16: byte-identical output across processes and canonical order, for the key sets of MC_Determinism."""
import datetime, json, os, random, re, shutil, tempfile
from concurrent.futures import ThreadPoolExecutor
from . import common
from .cli import run, finding, crashed, SCHWAB_OK
from .common import tlc, log, workdir, ToolError

BASE = datetime.date(2021, 3, 1)


def tick(codes):
    return ''.join(chr(64 + c) for c in codes)


def ledger_for(rec, seed):
    """BUY of every ticker up front, one SELL per (date, ticker), lines in a seeded non-alphabetical order."""
    rnd = random.Random(seed)
    tickers = [tick(t) for t in rec['tickers']]
    lines = []
    for i, t in enumerate(tickers):
        lines.append(f'2020-01-{10 + i:02d} BUY {t} 1000 @ {3 + i}')
    sells = []
    for k, (off, t) in enumerate(rec['disposals']):
        d = BASE + datetime.timedelta(days=off)
        sells.append(f'{d.isoformat()} SELL {tick(t)} {1 + k % 3} @ {5 + k % 7} FEES 1')
        if k % 4 == 0:
            sells.append(f'{d.isoformat()} DIVIDEND {tick(t)} TOTAL {2 + k} TAX 1')
    # income in tax years WITHOUT a disposal (six of them, all with a configured exemption): whatever the report does with
    # such years, it does it in the same order in every process
    for j, y in enumerate((2014, 2015, 2016, 2017, 2018, 2019)):
        sells.append(f'{y}-07-{1 + j:02d} DIVIDEND {tickers[j % len(tickers)]} TOTAL {3 + j} TAX 0')
    rnd.shuffle(sells)
    rnd.shuffle(lines)
    return '\n'.join(lines + sells) + '\n'


def det_check(tier, seed):
    common.build_cli()
    m = tlc('MC_Determinism', os.path.join('cfg', 'MC_Determinism.cfg'), workers=4, timeout=900)
    recs = []
    with open(m['out'], errors='replace') as f:
        for line in f:
            if line.startswith('<<"DET", "'):
                recs.append(json.loads(line.rstrip('\n')[len('<<"DET", "'):-len('">>')].replace('\\"', '"')))
    if not recs:
        raise ToolError('no DET lines')
    n_runs = 10 if tier == 'quick' else 60
    root = tempfile.mkdtemp(prefix='cgtv_det_', dir=workdir('det'))
    findings = []
    executions = 0
    try:
        jobs = []
        for i, rec in enumerate(recs):
            for variant in range(2 if tier == 'quick' else 5):
                d = os.path.join(root, f'd{i}_{variant}')
                os.makedirs(os.path.join(d, 'home'))
                text = ledger_for(rec, seed * 1000 + i * 10 + variant)
                open(os.path.join(d, 'l.cgt'), 'w').write(text)
                # the same ledger dealt over three files (the order on the command line is part of the input)
                ls = text.splitlines()
                for k in range(3):
                    open(os.path.join(d, f'p{k + 1}.cgt'), 'w').write('\n'.join(ls[k::3]) + '\n')
                jobs.append((i, variant, rec, d, text))
        def one(job):
            i, variant, rec, d, text = job
            out, runs = [], 0
            home = os.path.join(d, 'home')
            results = {}
            for args in (['report', 'l.cgt'], ['report', '--format', 'json', 'l.cgt'], ['parse', 'l.cgt'], ['report', '--year', '2021', 'l.cgt'],
                         ['parse', 'p3.cgt', 'p1.cgt', 'p2.cgt'], ['report', '--format', 'json', 'p2.cgt', 'p3.cgt', 'p1.cgt'], ['report', 'p1.cgt', 'p2.cgt', 'p3.cgt']):
                seen = {}
                for k in range(n_runs):
                    rc, so, se = run(d, home, args)
                    runs += 1
                    if crashed(rc) or rc != 0:
                        out.append(finding('C15' if crashed(rc) else 'C16', 'run_failed', f'cgt-tool {" ".join(args)} failed (exit {rc}): {se[-200:]!r}', text, i))
                        break
                    seen.setdefault(so, 0)
                    seen[so] += 1
                if len(seen) > 1:
                    a, b = list(seen)[:2]
                    diff = next((j for j in range(min(len(a), len(b))) if a[j] != b[j]), min(len(a), len(b)))
                    out.append(finding('C16', 'output_varies', f'cgt-tool {" ".join(args)}: {len(seen)} different outputs in {n_runs} runs; first difference at byte {diff}: '
                                       f'{a[max(0, diff - 60):diff + 60]!r} vs {b[max(0, diff - 60):diff + 60]!r}', text, i))
                if seen:
                    results[' '.join(args)] = next(iter(seen))
            # canonical order (from the specification)
            want_disp = [((BASE + datetime.timedelta(days=off)).isoformat(), tick(t)) for off, t in rec['disposals']]
            want_hold = [tick(t) for t in rec['tickers']]
            js = results.get('report --format json l.cgt')
            if js:
                j = json.loads(js)
                years = [y['period'] for y in j['tax_years']]
                if years != sorted(years):
                    out.append(finding('C16', 'years_order', f'tax years not ascending: {years}', text, i))
                got = [(dd['date'], dd['ticker']) for y in j['tax_years'] for dd in y['disposals']]
                if got != want_disp:
                    k = next((x for x in range(min(len(got), len(want_disp))) if got[x] != want_disp[x]), None)
                    out.append(finding('C16', 'disposal_order', f'disposals are not listed by date then ticker: position {k}: {got[k] if k is not None else len(got)} where {want_disp[k] if k is not None else len(want_disp)} belongs', text, i))
                hold = [h['ticker'] for h in j['holdings']]
                if hold != want_hold:
                    out.append(finding('C16', 'holdings_order', f'holdings listed {hold}, expected {want_hold}', text, i))
            pl = results.get('report l.cgt')
            if pl:
                t = pl.decode()
                heads = re.findall(r'^\d+\) SELL \S+ (\S+) on (\d\d)/(\d\d)/(\d{4})', t, re.M)
                got = [(f'{y}-{mo}-{dd}', tk) for tk, dd, mo, y in heads]
                if got != want_disp:
                    out.append(finding('C16', 'disposal_order', f'text report: disposals are not listed by date then ticker: {got[:6]} ...', text, i))
                sect = t.split('# TRANSACTIONS')[1].split('# ASSET EVENTS')[0] if '# TRANSACTIONS' in t else ''
                tx = re.findall(r'^(\d\d)/(\d\d)/(\d{4}) (?:BUY|SELL) \S+ (\S+) ', sect, re.M)
                keys = [(f'{y}-{mo}-{dd}', tk) for dd, mo, y, tk in tx]
                if keys != sorted(keys):
                    k = next(x for x in range(len(keys) - 1) if keys[x] > keys[x + 1])
                    out.append(finding('C16', 'transactions_order', f'echoed transactions are not listed by date then ticker: {keys[k]} before {keys[k + 1]}', text, i))
                ev_sect = t.split('# ASSET EVENTS')[1] if '# ASSET EVENTS' in t else ''
                evs = re.findall(r'^(\d\d)/(\d\d)/(\d{4}) (?:DIVIDEND|ACCUMULATION|CAPRETURN|SPLIT|UNSPLIT) (\S+)', ev_sect, re.M)
                ekeys = [(f'{y}-{mo}-{dd}', tk) for dd, mo, y, tk in evs]
                if ekeys != sorted(ekeys):
                    k = next(x for x in range(len(ekeys) - 1) if ekeys[x] > ekeys[x + 1])
                    out.append(finding('C16', 'transactions_order', f'echoed asset events are not listed by date then ticker: {ekeys[k]} before {ekeys[k + 1]}', text, i))
                hs = re.findall(r'^([A-Z0-9]+): \S+ units at', t, re.M)
                if hs != want_hold:
                    out.append(finding('C16', 'holdings_order', f'text report: holdings listed {hs}, expected {want_hold}', text, i))
            return out, runs
        with ThreadPoolExecutor(max_workers=16) as ex:
            for fs, n in ex.map(one, jobs):
                findings += fs
                executions += n
        # converter: several dividends (with withholding) of different symbols on one date and several Cancel Sell rows
        # without a matching sell: the DSL on stdout and the warnings on stderr are the same in every process, and rows
        # of one date keep the order of the export (stable chronological sort)
        syms = ['VTI', 'BND', 'AAPL', 'ZM', 'MSFT', 'GOOG']
        rows = []
        for k, sy in enumerate(syms):
            rows.append({'Date': '06/30/2023', 'Action': 'Qualified Dividend' if k % 2 else 'Cash Dividend', 'Symbol': sy, 'Description': 'X', 'Quantity': '', 'Price': '', 'Fees & Comm': '', 'Amount': f'${10 + k}.50'})
            rows.append({'Date': '06/30/2023', 'Action': 'NRA Tax Adj', 'Symbol': sy, 'Description': 'X', 'Quantity': '', 'Price': '', 'Fees & Comm': '', 'Amount': f'-$1.{k}0'})
        for k, sy in enumerate(syms[:5]):
            rows.append({'Date': '07/03/2023', 'Action': 'Cancel Sell', 'Symbol': sy, 'Description': 'X', 'Quantity': str(3 + k), 'Price': f'${20 + k}.00', 'Fees & Comm': '', 'Amount': ''})
        rows.append({'Date': '03/01/2023', 'Action': 'Buy', 'Symbol': 'VTI', 'Description': 'X', 'Quantity': '10', 'Price': '$5.00', 'Fees & Comm': '$1.00', 'Amount': '-$51.00'})
        export = json.dumps({'FromDate': '01/01/2023', 'ToDate': '12/31/2023', 'TotalTransactionsAmount': '$0', 'BrokerageTransactions': rows})
        d2 = os.path.join(root, 'conv2')
        os.makedirs(os.path.join(d2, 'home'))
        open(os.path.join(d2, 'tx.json'), 'w').write(export)
        outs2, errs2, first_out = set(), set(), None
        for k in range(n_runs):
            rc, so, se = run(d2, os.path.join(d2, 'home'), ['convert', 'schwab', 'tx.json'])
            executions += 1
            if rc != 0:
                findings.append(finding('C16', 'run_failed', f'convert schwab failed (exit {rc}): {se[-200:]!r}', export, 0))
                break
            so = re.sub(rb'# Converted: [^\n]*', b'# Converted: <t>', so)
            outs2.add(so)
            errs2.add(se)
            first_out = first_out or so
        if len(outs2) > 1:
            findings.append(finding('C16', 'output_varies', f'convert schwab: {len(outs2)} different outputs in {n_runs} runs (several dividends of different symbols on one date)', export, 0))
        if len(errs2) > 1:
            findings.append(finding('C16', 'output_varies', f'convert schwab: the warnings on standard error come in {len(errs2)} different orders in {n_runs} runs (several unmatched Cancel Sell rows)', export, 0))
        if first_out:
            got = re.findall(r'^2023-06-30 DIVIDEND (\S+)', first_out.decode(errors='replace'), re.M)
            if got != syms:
                findings.append(finding('C16', 'converter_order', f'dividends of one date are listed {got}, the export has them in the order {syms}', export, 0))
        # converter output is deterministic apart from its timestamp line
        d = os.path.join(root, 'conv')
        os.makedirs(os.path.join(d, 'home'))
        open(os.path.join(d, 'tx.json'), 'w').write(SCHWAB_OK)
        outs = set()
        for k in range(n_runs):
            rc, so, se = run(d, os.path.join(d, 'home'), ['convert', 'schwab', 'tx.json'])
            executions += 1
            outs.add(re.sub(rb'# Converted: [^\n]*', b'# Converted: <t>', so))
        if len(outs) > 1:
            findings.append(finding('C16', 'output_varies', 'convert schwab: outputs differ beyond the timestamp line', SCHWAB_OK, 0))
    finally:
        shutil.rmtree(root, ignore_errors=True)
    log(f'[replay] MC_Determinism: {len(recs)} key sets, {len(jobs)} ledgers, {executions} cgt-tool runs ({n_runs} fresh processes per command), {len(findings)} deviations')
    cov = {'states': max(m['states'], 1), 'transitions': max(m['transitions'], 1), 'traces_validated_against_impl': executions, 'evaluations': executions,
           'distinct_nontrivial': len(jobs),
           'rule': 'MC_Determinism.tla: 15 key sets (tickers that are proper prefixes of one another, last-letter neighbours, 12-letter fund identifiers equal in '
                   'their first 8 / 11 letters, several disposals per date, 2-4 tax years; each ledger also dealt over three input files); TLC checks every comparator is a strict total order on every key set (so any hash order sorts to one output), enumerates every hash '
                   'order of the small sites, and shows that a prefix-tie comparator is NOT deterministic; each ledger (lines in seeded non-alphabetical order) is '
                   f'run {n_runs} times per command in fresh processes: outputs must be byte-identical and in the specification\'s canonical order; non-trivial = ledgers',
           'samples': [jobs[0][4], jobs[-1][4][:600]], 'exhaustive': False}
    return {'findings': findings, 'coverage': cov,
            'assumptions': ['hash seeds cannot be enumerated: the execution dimension is sampled (fresh process = fresh RandomState); the design-level theorem is what TLC checks',
                            'PDF bytes are not compared (creation date); the PDF lists the same disposal sequence as the JSON report, whose order is checked']}
