"""MC_Cgt families: TLC configuration + replay + (for cost-event families) the TLC observation pass."""
import json, math, os, re
from . import common
from .common import tlc, harness, read_ndjson, workdir, log, SPEC

CGT_INVARIANTS = ('ClaimsWithinBought PoolNonNeg S104Covers LegsSumToSold HoldIsClosedForm HoldDecomposition '
                  'FailIffUncovered LegOrder WindowEdge PoolOnlyWhenWindowExhausted CostConservedAtEnd ClosingHolding '
                  'NoNegativeCost EmitReplay')
CGT_PROPS = 'SplitMovesNoMoney OthersUntouched LegsAppendOnly'


def set_(xs):
    return '{' + ', '.join(str(x) for x in xs) + '}'


def cgt_cfg(secs='SecSeqA', dayset=1, buy=(0, 1, 2), sell=(0, 1, 2), qden=1, splits=(), maxsplits=0,
            events=(), maxevents=0, grid=1, maxcells=0, timings=('"end"',), covered_only=False, cheap=0):
    return f'''SPECIFICATION MCSpec
CONSTANTS
  SecSeq <- {secs}
  N <- MC_N
  DayNo <- MC_DayNo
  Timings = {set_(timings)}
  DaySet = {dayset}
  BuyQs = {set_(buy)}
  SellQs = {set_(sell)}
  QDen = {qden}
  SplitKinds = {set_(splits)}
  MaxSplits = {maxsplits}
  EventKinds = {set_(events)}
  MaxEvents = {maxevents}
  DistGrid = {grid}
  MaxCells = {maxcells}
  CheapDay = {cheap}
  CoveredOnly = {'TRUE' if covered_only else 'FALSE'}
  Emit = TRUE
INVARIANTS
  {CGT_INVARIANTS}
PROPERTIES
  {CGT_PROPS}
CHECK_DEADLOCK FALSE
'''


def obs_cfg(secs, dayset):
    return f'''SPECIFICATION ObsSpec
CONSTANTS
  SecSeq <- {secs}
  N <- MC_N
  DayNo <- MC_DayNo
  DaySet = {dayset}
INVARIANTS
  ClaimsWithinBought PoolNonNeg S104Covers LegsSumToSold HoldIsClosedForm FailIffUncovered LegOrder WindowEdge
  PoolOnlyWhenWindowExhausted CostConservedAtEnd ClosingHolding Judge
CHECK_DEADLOCK FALSE
'''


BOTH = ('"end"', '"start"')

# name -> dict(cfg=kwargs for cgt_cfg, variants=harness rendering set, bases=number of base dates, obs=observation pass)
FAMILIES = {
    # one security, five day slots around the 30/31-day edge, every cell 0..2: 59,049 ledgers
    'core_q': dict(cfg=dict(dayset=1), variants='none', bases=2, cli_every=97, micro=True),
    # fractional quantities (halves) on the short window 0,1,31,32
    'frac_q': dict(cfg=dict(dayset=3, buy=(0, 1, 3), sell=(0, 1, 3), qden=2), variants='none', bases=1, micro=True),
    # splits / unsplits at every position: one split cell, ratios 2, 3, 1/2, 3/2
    'split_q': dict(cfg=dict(dayset=3, splits=(1, 2, 3, 4), maxsplits=1, timings=BOTH), variants='orders', bases=1),
    # eight slots, at most 5 non-empty cells, quantities 0..3
    # 30/31-day gaps that a held position can straddle, at base dates incl. the end of a leap year
    'edge_q': dict(cfg=dict(dayset=11, maxcells=4), variants='none', bases=3),
    # two-digit holdings around a 3-for-1 split / 1-for-3 consolidation: decimal residue of non-terminating ratios
    'residue_q': dict(cfg=dict(dayset=3, buy=(0, 1, 10), sell=(0, 1, 4, 28), splits=(2,), maxsplits=1, maxcells=4, timings=BOTH),
                      variants='none', bases=1),
    'core_t': dict(cfg=dict(dayset=2, buy=(0, 1, 2, 3), sell=(0, 1, 2, 3), maxcells=5), variants='none', bases=6),
    'split_t': dict(cfg=dict(dayset=1, splits=(1, 2, 3, 4), maxsplits=2, maxcells=5, timings=BOTH), variants='none', bases=2),
    # line order / fill splitting / ticker case / dividend lines: same ledgers, many renderings
    'order_q': dict(cfg=dict(dayset=3), variants='all', bases=1),
    'order_split_q': dict(cfg=dict(dayset=7, splits=(1, 3), maxsplits=1, timings=BOTH), variants='all', bases=1),
    'order_t': dict(cfg=dict(dayset=1, maxcells=6), variants='all', bases=1),
    # capital returns / accumulations at every position (one event cell), admissible apportionments on a grid of halves
    'events_q': dict(cfg=dict(dayset=3, events=(1, 2, 3, 4, 5), maxevents=1, grid=2, maxcells=5), variants='dividends',
                     bases=1, obs=True),
    # a cheap lot (1 a share) next to dear ones and a large capital return: per-lot apportionment by share count
    'events_cheap_q': dict(cfg=dict(dayset=3, buy=(0, 1, 2), sell=(0, 1, 2), events=(5, 6), maxevents=1, grid=2, maxcells=5, cheap=1),
                           variants='none', bases=1, obs=True),
    'events_t': dict(cfg=dict(dayset=3, buy=(0, 1, 2), sell=(0, 1), events=(1, 2, 3, 4, 5), maxevents=2, grid=2, maxcells=4),
                     variants='dividends', bases=1, obs=True),
    'events_split_t': dict(cfg=dict(dayset=3, buy=(0, 1, 2), sell=(0, 1), events=(1, 2, 3), maxevents=1, grid=2,
                                    splits=(1, 3), maxsplits=1, maxcells=4, timings=BOTH), variants='none', bases=1, obs=True),
    # two securities: independence (a purchase of 1 wholly reserved for its own day's sale next to one that is not)
    'two_q': dict(cfg=dict(secs='SecSeqAB', dayset=7, buy=(0, 1, 2), sell=(0, 1)), variants='orders', bases=1, cli_every=101),
    # two securities, a split of either at every position: one security's split never touches the other
    'two_split_q': dict(cfg=dict(secs='SecSeqAB', dayset=7, buy=(0, 2), sell=(0, 1), splits=(1,), maxsplits=1, timings=BOTH),
                        variants='orders', bases=1),
    # five day slots, one split at every position, at most four non-empty cells (room for sale / repurchase / second sale)
    'split5_q': dict(cfg=dict(dayset=1, splits=(1, 3), maxsplits=1, maxcells=4, timings=BOTH), variants='none', bases=1),
    # two splits / unsplits (2-for-1, 1-for-2) in one ledger of at most three trades: the ratio between a sale and its
    # 30-day purchase is the PRODUCT of what lies between them
    'split2_q': dict(cfg=dict(dayset=1, splits=(1, 3), maxsplits=2, maxcells=3, timings=BOTH), variants='none', bases=1),
    # two securities, even quantities, every fill-splitting rendering (half fills adjacent, separated by another line,
    # interleaved A B A B): same-day sale lines of one security with the other security's lines between them
    'two_fills_q': dict(cfg=dict(secs='SecSeqAB', dayset=7, buy=(0, 2), sell=(0, 2)), variants='fills', bases=1),
    # a cost event on the day of a purchase / sale, under every line order (does the day's purchase take part?)
    'events_order_q': dict(cfg=dict(dayset=3, buy=(0, 1, 2), sell=(0, 1), events=(1, 2), maxevents=1, grid=2, maxcells=4),
                           variants='orders', bases=1),
    # two securities, a cost event of either, every line order (a SELL or an event line of one security before a BUY of
    # the other on the same day): the event reaches its own security's purchases only
    'two_events_q': dict(cfg=dict(secs='SecSeqAB', dayset=7, buy=(0, 2), sell=(0, 1), events=(2,), maxevents=1, grid=1, maxcells=4),
                         variants='orders', bases=1),
    # cost events and splits together
    'events_split_q': dict(cfg=dict(dayset=3, buy=(0, 1, 2), sell=(0, 1), events=(1, 2), maxevents=1, grid=2,
                                    splits=(1,), maxsplits=1, maxcells=4, timings=BOTH), variants='none', bases=1, obs=True),
    # random walks (tlc -simulate): two securities, eight slots, quantities 0..3, one split each, covered sales only
    'sim_t': dict(cfg=dict(secs='SecSeqAB', dayset=2, buy=(0, 1, 2, 3), sell=(0, 1, 2, 3), splits=(1, 2, 3), maxsplits=1, timings=BOTH,
                           covered_only=True), variants='orders', bases=2, simulate='num=1500', depth=250),
    'two_t': dict(cfg=dict(secs='SecSeqAB', dayset=5, buy=(0, 1, 2), sell=(0, 1), maxcells=3), variants='orders', bases=1),
}

_family_cache = {}


def write_cfg(name, text):
    d = os.path.join(SPEC, 'cfg')
    os.makedirs(d, exist_ok=True)
    p = os.path.join(d, name + '.cfg')
    if not os.path.exists(p) or open(p).read() != text:
        open(p, 'w').write(text)
    return os.path.join('cfg', name + '.cfg')


_VERDICT = re.compile(r'^<<"VERDICT", (\d+), "([^"]*)">>')


def obs_pass(name, fam, obs_path, records):
    """Second TLC pass: the specification re-run on the implementation's observed apportionment."""
    kw = fam['cfg']
    cfg = write_cfg('Obs_Cgt_' + name, obs_cfg(kw.get('secs', 'SecSeqA'), kw.get('dayset', 1)))
    if os.path.getsize(obs_path) == 0:
        return {'states': 0, 'transitions': 0, 'verdicts': 0, 'bad': []}
    m = tlc('Obs_Cgt', cfg, workers=8, timeout=3000, env={'OBS': obs_path}, cache=False, jvm=['-Xss512m'])
    bad, n = [], 0
    with open(m['out'], errors='replace') as f:
        for line in f:
            mm = _VERDICT.match(line)
            if mm:
                n += 1
                if mm.group(2) != 'ok':
                    bad.append((int(mm.group(1)), mm.group(2)))
    log(f'[obs] Obs_Cgt/{name}: {n} observations judged by TLC, {len(bad)} not ok ({m["wall_s"]}s)')
    return {'states': m['states'], 'transitions': m['transitions'], 'verdicts': n, 'bad': bad}


def cgt_family(name, seed=1):
    if name in _family_cache:
        return _family_cache[name]
    if name in MATCHER_FAMILIES:
        return matcher_family(name, seed)
    if name in LINES_FAMILIES:
        return lines_family(name, seed)
    fam = FAMILIES[name]
    cfg = write_cfg('MC_Cgt_' + name, cgt_cfg(**fam['cfg']))
    if fam.get('simulate'):
        # random walks through the same Next (generator actions add one cell per step): deeper than the exhaustive bound
        m = tlc('MC_Cgt', cfg, workers=8, timeout=3000, simulate=fam['simulate'], seed=seed, depth=fam.get('depth', 250))
    else:
        m = tlc('MC_Cgt', cfg, workers=8, timeout=3000)
    log(f'[tlc] MC_Cgt/{name}: {m["states"]} distinct states, {m["transitions"]} transitions, depth {m["depth"]}'
        f' ({"cached" if m["cached"] else str(m["wall_s"]) + "s"})')
    wd = workdir('cgt_' + name)
    out = os.path.join(wd, 'findings.ndjson')
    args = ['--in', m['out'], '--out', out, '--bases', str(fam.get('bases', 1)), '--variants', fam.get('variants', 'none')]
    if fam.get('micro'):
        args += ['--micro']
    if fam.get('cli_every'):
        common.build_cli()
        args += ['--cli', common.CGT_TOOL, '--cli-every', str(fam['cli_every'])]
    obs_path = os.path.join(wd, 'obs.ndjson')
    if fam.get('obs'):
        args += ['--obs', obs_path]
    s = harness('replay_cgt', args)
    findings = read_ndjson(out)
    r = {'name': name, 'tlc': m, 'summary': s, 'findings': findings, 'obs': None}
    log(f'[replay] MC_Cgt/{name}: {s["records"]} behaviours, {s["counters"].get("executions", 0)} executions, '
        f'{s["findings"]} deviations')
    if fam.get('obs'):
        o = obs_pass(name, fam, obs_path, s)
        r['obs'] = o
        if o['verdicts'] != s.get('observations', 0):
            raise common.ToolError(f'observation pass judged {o["verdicts"]} of {s.get("observations")} observations')
        obs_by_case = {}
        for l in read_ndjson(obs_path):
            obs_by_case.setdefault(l['case'], []).append(l)
        # an observation is accepted if any admissible timing reading judged it ok; bad = all readings bad
        badcases = {}
        for case, verdict in o['bad']:
            badcases.setdefault(case, []).append(verdict)
        for case, verdicts in badcases.items():
            if len(verdicts) < len(obs_by_case.get(case, [])):
                continue
            prop, _, what = verdicts[0].partition(':')
            findings.append({'prop': prop, 'kind': 'obs_' + what, 'case': case,
                             'detail': f'TLC observation pass: {verdicts[0]}',
                             'input': json.dumps(obs_by_case[case][0]), 'data': {'verdicts': verdicts}})
    _family_cache[name] = r
    return r


# --------------------------------------------------------------------------------------------
# MC_Matcher families: the implementation-shaped machine (Matcher.tla: acquisition ledger with per-lot offsets, FIFO
# cost pre-pass, stateless same-day reservation, look-ahead split adjustment) is model-checked to REFINE Cgt.tla on
# every generated ledger, and its own outcome -- with the apportionment now determined -- is replayed into the code.

def matcher_cfg(dayset=3, buy=(0, 1, 2), sell=(0, 1, 2), splits=(1,), events=(), maxcells=4, gensteps=False, maxsplits=1, maxevents=1, **_):
    return f'''SPECIFICATION Spec
CONSTANTS
  N <- MC_N
  DayNo <- MC_DayNo
  DaySet = {dayset}
  BuyQs = {set_(buy)}
  SellQs = {set_(sell)}
  SplitKinds = {set_(splits)}
  EventKinds = {set_(events)}
  MaxCells = {maxcells}
  GenSteps = {'TRUE' if gensteps else 'FALSE'}
  MaxSplits = {maxsplits}
  MaxEvents = {maxevents}
INVARIANTS Refines RefusesUnabsorbable Bookkeeping EmitReplay
CHECK_DEADLOCK FALSE
'''


MATCHER_FAMILIES = {
    'matcher_q': dict(dayset=3, splits=(1, 2), maxcells=4),
    'matcher_events_q': dict(dayset=3, buy=(0, 1, 2), sell=(0, 1), splits=(1,), events=(1, 2, 5), maxcells=4),
    'matcher_t': dict(dayset=3, splits=(1, 2), maxcells=5),
    'matcher_events_t': dict(dayset=3, splits=(1,), events=(1, 2, 3, 5, 6), maxcells=4),
    # random walks (tlc -simulate) through the generator mode: eight day slots, quantities 0..3, two splits and two
    # cost events per ledger -- far beyond the exhaustive bound; the refinement is checked along every walk and the
    # machine's exact outcome is replayed
    'matcher_sim_t': dict(dayset=2, buy=(0, 1, 2, 3), sell=(0, 0, 1, 2), splits=(1, 2, 3), events=(1, 2, 3), maxcells=0,
                          gensteps=True, maxsplits=2, maxevents=2, simulate='num=400', depth=400),
}


def matcher_family(name, seed=1):
    if name in _family_cache:
        return _family_cache[name]
    cfg = write_cfg('MC_' + name[0].upper() + name[1:], matcher_cfg(**MATCHER_FAMILIES[name]))
    fam = MATCHER_FAMILIES[name]
    if fam.get('simulate'):
        m = tlc('MC_Matcher', cfg, workers=8, timeout=3000, simulate=fam['simulate'], seed=seed, depth=fam.get('depth', 400))
    else:
        m = tlc('MC_Matcher', cfg, workers=8, timeout=3000)
    log(f'[tlc] MC_Matcher/{name}: refinement Matcher => Cgt held on {m["states"]} distinct states, {m["transitions"]} '
        f'transitions, depth {m["depth"]} ({"cached" if m["cached"] else str(m["wall_s"]) + "s"})')
    wd = workdir('cgt_' + name)
    out = os.path.join(wd, 'findings.ndjson')
    s = harness('replay_cgt', ['--in', m['out'], '--out', out, '--bases', '1', '--variants', 'none'])
    r = {'name': name, 'tlc': m, 'summary': s, 'findings': read_ndjson(out), 'obs': None}
    log(f'[replay] MC_Matcher/{name}: {s["records"]} behaviours, {s["counters"].get("executions", 0)} executions, '
        f'{s["findings"]} deviations')
    if MATCHER_FAMILIES[name].get('events'):
        _matcher_binding_selftest(m['out'], wd)
    _family_cache[name] = r
    return r


# --------------------------------------------------------------------------------------------
# MC_Lines families: the LINE-LEVEL implementation-shaped machine (Lines.tla: stable sort, adjacent merge, same-day fold,
# flat line indices, shared reservation maps, several securities) is model-checked to refine Cgt.tla for EVERY ORDER of
# every selection of lines from a small alphabet, and its exact outcome is replayed into the code line order and all.

def lines_cfg(maxlines=3, alpha='MC_AlphaAll', minlines=1, files=0, design=False, **_):
    return f'''SPECIFICATION Spec
CONSTANTS
  DayNo <- {'MC_LDayNo8' if files else 'MC_LDayNo'}
  LSecs <- {'MC_LSecs3' if files else 'MC_LSecs'}
  FromFile = {'TRUE' if files else 'FALSE'}
  FoldSellLines = {'TRUE' if design else 'FALSE'}
  MinLines = {minlines}
  MaxLines = {maxlines}
  AlphabetSel {'=' if alpha.startswith('{') else '<-'} {alpha}
INVARIANTS LinesRefine LinesRefuseUnabsorbable LBookkeeping {'DesignLegsIdentical' if design else 'EmitLines'}
CHECK_DEADLOCK FALSE
'''


LINES_FAMILIES = {
    'lines_q': dict(maxlines=3, alpha='MC_AlphaAll'),       # 4 369 ordered selections of <= 3 of 17 lines
    'lines4_q': dict(maxlines=4, alpha='MC_AlphaCore'),     # <= 4 of the 11 core lines (two fills, two sale lines, split, both events)
    'lines_fills_q': dict(minlines=6, maxlines=6, alpha='MC_AlphaFills'),   # separated fills on two days: all 720 orders
    'lines_splits_q': dict(minlines=4, maxlines=5, alpha='MC_AlphaSplits'),
    # the pre-pass with two SELL lines on a purchase day: a holding, a purchase and two sale lines on day 2, a purchase and a
    # capital return on day 3 -- all 720 orders (the sale lines adjacent or not, the return before or after its day's purchase)
    'lines_prepass_q': dict(minlines=6, maxlines=6, alpha='{1, 2, 6, 7, 19, 15}'),
    # ... and the same with the return on a LATER day than the second purchase (two lots hold shares when it arrives, so the
    # pre-pass's consumption of the older lot by the second sale line decides the spread): all 720 orders, as files
    'lines_prepass2_q': dict(files=720, perm=[[1, 'AAA', 'BUY', [2, 1], [10, 1], [1, 1]], [2, 'AAA', 'BUY', [1, 1], [12, 1], [0, 1]],
                                              [2, 'AAA', 'SELL', [1, 1], [20, 1], [1, 1]], [2, 'AAA', 'SELL', [1, 1], [17, 1], [0, 1]],
                                              [3, 'AAA', 'BUY', [1, 1], [11, 1], [0, 1]], [5, 'AAA', 'CAPRETURN', [0, 1], [3, 1], [1, 1]]]),  # two reorganisations on one day, the other security's split
    # seeded random FILES of 8-14 lines (three securities, eight day slots, shuffled line order): beyond the exhaustive bound;
    # TLC runs Lines on each, checks the refinement onto Cgt and hands its outcome to the replay
    'lines_files_q': dict(files=240),
    'lines_files_t': dict(files=3000),
    # the specified repair of D14 (all same-day SELL lines of a security folded): model-checked only, nothing to replay --
    # with it the legs are the same records as Cgt's for every order of the lines
    'lines_design_q': dict(maxlines=3, alpha='MC_AlphaAll', design=True),
    'lines_resv_q': dict(minlines=5, maxlines=5, alpha='MC_AlphaResv'),     # same-day reservation next to the other security's purchase
    'lines_t': dict(maxlines=4, alpha='MC_AlphaAll'),
    'lines5_t': dict(maxlines=5, alpha='MC_AlphaCore'),
}


def lines_family(name, seed=1):
    if name in _family_cache:
        return _family_cache[name]
    fam = LINES_FAMILIES[name]
    cfg = write_cfg('MC_' + name[0].upper() + name[1:], lines_cfg(**fam))
    env = None
    if fam.get('files'):
        fp = os.path.join(workdir('cgt_' + name), 'files.ndjson')
        if fam.get('perm'):
            import itertools
            with open(fp, 'w') as f:
                for pm in itertools.permutations(fam['perm']):
                    f.write(json.dumps({'lines': list(pm)}) + '\n')
        else:
            _write_line_files(fp, fam['files'], seed)
        env = {'LINESFILE': fp}
    m = tlc('MC_Lines', cfg, workers=8, timeout=3000, env=env)
    log(f'[tlc] MC_Lines/{name}: refinement Lines => Cgt held for every order of the lines on {m["states"]} distinct states, '
        f'{m["transitions"]} transitions, depth {m["depth"]} ({"cached" if m["cached"] else str(m["wall_s"]) + "s"})')
    if fam.get('design'):
        r = {'name': name, 'tlc': m, 'summary': {'records': 0, 'findings': 0, 'counters': {}, 'samples': []}, 'findings': [], 'obs': None}
        _family_cache[name] = r
        return r
    wd = workdir('cgt_' + name)
    out = os.path.join(wd, 'findings.ndjson')
    common.build_cli()
    s = harness('replay_lines', ['--in', m['out'], '--out', out, '--bases', '2' if name.endswith('_q') else '1', '--cli', common.CGT_TOOL, '--cli-every', '23', '--pad-every', '2' if fam.get('files') else '5'])
    r = {'name': name, 'tlc': m, 'summary': s, 'findings': read_ndjson(out), 'obs': None}
    if fam.get('perm') or name in ('lines_fills_q', 'lines_prepass_q'):
        # every behaviour of these families is an ORDER of the same lines: the specification gives each order its outcome
        # (and TLC has checked that all of them refine the same cell outcome), so if the code deviates for some orders and
        # not for others, the order of the lines changes what it reports beyond what the specification allows: C06
        bad = {f['case'] for f in r['findings'] if f['kind'] != 'cli_report_differs'}
        if 0 < len(bad) < s['records']:
            f0 = next(f for f in r['findings'] if f['case'] in bad)
            r['findings'].append({'prop': 'C06', 'kind': 'line_order_changes_outcome', 'case': f0['case'], 'input': f0.get('input', ''), 'data': {},
                                  'detail': f'{len(bad)} of the {s["records"]} orders of the same lines deviate from the line-level model, the others do not; e.g. {f0["detail"][:300]}'})
    log(f'[replay] MC_Lines/{name}: {s["records"]} behaviours, {s["counters"].get("executions", 0)} executions, '
        f'{s["findings"]} deviations')
    _lines_binding_selftest(m['out'], wd)
    _family_cache[name] = r
    return r


def _write_line_files(path, n, seed):
    """Seeded random ledgers as line lists: built day by day with a running holding so that most sales are covered (some
    deliberately are not), then SHUFFLED -- the file order is arbitrary.  Quantities 1..4 and halves, small integer prices."""
    import random
    rnd = random.Random(1000003 * seed + n)
    secs = ['AAA', 'BBB', 'CCC']
    with open(path, 'w') as f:
        for _ in range(n):
            lines, held = [], {s: 0 for s in secs}
            target = rnd.randint(8, 14)
            days = sorted(rnd.choice(range(1, 9)) for _ in range(target))
            nsplit = 0
            for d in days:
                s = rnd.choice(secs if rnd.random() < 0.5 else secs[:2] if rnd.random() < 0.7 else secs[:1])
                r = rnd.random()
                q2 = rnd.choice([2, 4, 6, 8, 1, 3])          # in halves: 1, 2, 3, 4, 1/2, 3/2
                if r < 0.42 or held[s] == 0 and r < 0.8:
                    lines.append([d, s, 'BUY', [q2, 2], [rnd.randint(5, 20), 1], [rnd.choice([0, 0, 1, 2]), 1]])
                    held[s] += q2
                elif r < 0.80:
                    q2 = min(q2, held[s]) if rnd.random() < 0.93 else q2 + held[s]      # now and then an uncovered sale
                    if q2 == 0:
                        q2 = 2
                    lines.append([d, s, 'SELL', [q2, 2], [rnd.randint(5, 20), 1], [rnd.choice([0, 0, 1, 2]), 1]])
                    held[s] = max(0, held[s] - q2)
                elif r < 0.86 and nsplit < 2:
                    k = rnd.choice([[2, 1], [1, 2]])
                    lines.append([d, s, 'SPLIT', k, [0, 1], [0, 1]])
                    held[s] = held[s] * k[0] // k[1]
                    nsplit += 1
                elif r < 0.91:
                    lines.append([d, s, 'CAPRETURN', [0, 1], [rnd.randint(1, 3), 1], [rnd.choice([0, 1]), 1]])
                elif r < 0.96:
                    lines.append([d, s, 'ACC', [0, 1], [rnd.randint(1, 4), 1], [0, 1]])
                else:
                    lines.append([d, s, 'DIV', [0, 1], [rnd.randint(1, 4), 1], [0, 1]])
            rnd.shuffle(lines)
            for l in lines:                                   # normalised rationals
                for i in (3, 4, 5):
                    a, b = l[i]
                    g = math.gcd(a, b) or 1
                    l[i] = [a // g, b // g]
            f.write(json.dumps({'lines': lines}) + '\n')


def _lines_binding_selftest(tlc_out, wd):
    """The exact replay must bind: a behaviour whose expected legs are given in another order (two legs of one disposal
    swapped) or whose leg cost is off by one must be reported; otherwise the family's silence means nothing."""
    pre = '<<"LINES", "'
    with open(tlc_out, errors='replace') as f:
        for line in f:
            if not line.startswith(pre):
                continue
            rec = json.loads(line.rstrip('\n')[len(pre):-len('">>')].replace('\\"', '"').replace('\\\\', '\\'))
            if rec['status'] != 'ok' or len(rec['legs']) < 2 or rec['legs'][0][:2] != rec['legs'][1][:2]:
                continue
            rec['legs'][0], rec['legs'][1] = rec['legs'][1], rec['legs'][0]
            p = os.path.join(wd, 'selftest.txt')
            open(p, 'w').write(pre + json.dumps(rec).replace('\\', '\\\\').replace('"', '\\"') + '">>\n')
            o = os.path.join(wd, 'selftest.ndjson')
            harness('replay_lines', ['--in', p, '--out', o, '--bases', '1'])
            kinds = {f['kind'] for f in read_ndjson(o)}
            if not kinds & {'leg_identification', 'leg_value'}:
                raise common.ToolError(f'line-level replay does not bind: swapped legs were accepted (kinds reported: {sorted(kinds)})')
            log(f'[selftest] MC_Lines exact replay: two legs of a disposal given in the wrong order are rejected ({sorted(kinds)})')
            return
    log('[selftest] MC_Lines exact replay: no behaviour with a two-leg disposal to perturb')


def _matcher_binding_selftest(tlc_out, wd):
    """The exact replay must bind: one behaviour whose recorded apportionment is moved from one lot to another (the sum
    is kept, so conservation still holds) has to be reported as `apportionment_differs`; otherwise nothing this family
    says can be trusted (tool error)."""
    pre = '<<"REPLAY", "'
    with open(tlc_out, errors='replace') as f:
        for line in f:
            if not line.startswith(pre):
                continue
            rec = json.loads(line.rstrip('\n')[len(pre):-len('">>')].replace('\\"', '"').replace('\\\\', '\\'))
            if rec['status'] != 'ok':
                continue
            d = rec['dist'][0]
            hit = [(e, a) for e in range(len(d)) for a in range(len(d[e])) if d[e][a][0] != 0]
            rows = {e for e, a in hit}
            pick = next(((e, [a for ee, a in hit if ee == e]) for e in rows if len([1 for ee, a in hit if ee == e]) >= 2), None)
            if not pick:
                continue
            e, cols = pick
            a, b = cols[0], cols[1]
            (n1, d1), (n2, d2) = d[e][a], d[e][b]
            # move one unit (1/1) from lot a to lot b
            d[e][a] = [n1 * 1 + d1, d1] if d1 else [n1, d1]
            d[e][b] = [n2 * 1 - d2, d2] if d2 else [n2, d2]
            p = os.path.join(wd, 'selftest.txt')
            open(p, 'w').write(pre + json.dumps(rec).replace('\\', '\\\\').replace('"', '\\"') + '">>\n')
            o = os.path.join(wd, 'selftest.ndjson')
            harness('replay_cgt', ['--in', p, '--out', o, '--bases', '1', '--variants', 'none'])
            kinds = {f['kind'] for f in read_ndjson(o)}
            if 'apportionment_differs' not in kinds:
                raise common.ToolError(f'exact replay does not bind: a moved apportionment was accepted (kinds reported: {sorted(kinds)})')
            log('[selftest] MC_Matcher exact replay: an apportionment moved between two lots is rejected (apportionment_differs)')
            return
    log('[selftest] MC_Matcher exact replay: no behaviour with a two-lot apportionment to perturb')


def combine(fams, nontrivial_key, rule, exhaustive=True, assumptions=None):
    findings = []
    cov = {'states': 0, 'transitions': 0, 'traces_validated_against_impl': 0, 'evaluations': 0,
           'distinct_nontrivial': 0, 'rule': rule, 'samples': [], 'exhaustive': exhaustive, 'families': {}}
    for f in fams:
        findings += f['findings']
        c = f['summary']['counters']
        cov['states'] += f['tlc']['states']
        cov['transitions'] += f['tlc']['transitions']
        cov['traces_validated_against_impl'] += c.get('executions', 0)
        cov['evaluations'] += c.get('executions', 0)
        keys = nontrivial_key if isinstance(nontrivial_key, (list, tuple)) else [nontrivial_key]
        cov['distinct_nontrivial'] += sum(c.get(k, 0) for k in keys)
        cov['samples'] += [x for x in f['summary'].get('samples', []) if x][:2]
        cov['families'][f['name']] = {'tlc_states': f['tlc']['states'], 'tlc_from_cache': f['tlc']['cached'],
                                      'behaviours': f['summary']['records'], 'counters': c}
        if f.get('obs'):
            cov['states'] += f['obs']['states']
            cov['transitions'] += f['obs']['transitions']
            cov['families'][f['name']]['observations_judged_by_tlc'] = f['obs']['verdicts']
    base = ['TLC 1.8.0 explored the bounded model exhaustively (constants in spec/cfg/*.cfg); TLC results are cached by a '
            'digest of spec/*.tla + cfg because they do not depend on /repo',
            'implementation observed through cgt_core::calculator::calculate built from /repo\'s working tree',
            'tolerance 1e-12 on full-precision figures, 1e-9 on disposal proceeds (rounded to 10 dp by the code)']
    return {'findings': findings, 'coverage': cov, 'assumptions': base + (assumptions or [])}


def fam_list(tier, quick, thorough):
    return [cgt_family(n) for n in (quick if tier == 'quick' else quick + thorough)]


def long_family(tier, seed=1):
    """Cgt.tla's prediction-free invariants (LegsSumToSold, ClaimsWithinBought, ClosingHolding, CostConservedAtEnd,
    FailIffUncovered with the closed form of the holding, the Same Day part of LegOrder) evaluated on the implementation's
    own report for seeded single-security ledgers of 60-140 lines (dozens of open lots and disposals, reorganisations,
    cost events): beyond every per-security size threshold; no TLC run of its own (the invariants are model-checked in
    the bounded families)."""
    name = 'long_q' if tier == 'quick' else 'long_t'
    if name in _family_cache:
        return _family_cache[name]
    wd = workdir('cgt_' + name)
    out = os.path.join(wd, 'findings.ndjson')
    s = harness('replay_long', ['--seeds', '96' if tier == 'quick' else '1500', '--seed', str(seed), '--out', out])
    c = s['counters']
    if c.get('covered', 0) < 10 or c.get('disposals', 0) < 100 or c.get('uncovered', 0) < 1:
        raise common.ToolError(f'long ledgers are vacuous: {c}')
    r = {'name': name, 'tlc': {'states': 0, 'transitions': 0, 'cached': False}, 'summary': s, 'findings': read_ndjson(out), 'obs': None}
    log(f'[replay] long ledgers/{name}: {s["records"]} ledgers, {c.get("lines", 0)} lines, {c.get("disposals", 0)} disposals '
        f'({c.get("three_leg_disposals", 0)} with three or more legs), {c.get("uncovered", 0)} uncovered, {s["findings"]} deviations')
    _family_cache[name] = r
    return r


# --------------------------------------------------------------------------------------------
# MC_CgtLaw families: laws between two runs, model-checked on the specification (two instances of
# Cgt run on a ledger and on its transform) and then demanded of the implementation, run against run.

def law_cfg(law, secs='SecSeqA', dayset=3, buy=(0, 1, 2), sell=(0, 1, 2), splits=(1, 2, 3, 4), timings=('"end"',),
            prefix=2, maxcells=0, events=()):
    return f'''SPECIFICATION Spec
CONSTANTS
  SecSeq <- {secs}
  N <- MC_N
  DayNo <- MC_DayNo
  DaySet = {dayset}
  Law = "{law}"
  BuyQs = {set_(buy)}
  SellQs = {set_(sell)}
  SplitKinds = {set_(splits)}
  Timings = {set_(timings)}
  PrefixDays = {prefix}
  EventKinds = {set_(events)}
  MaxCells = {maxcells}
INVARIANTS LawHolds EmitPair
CHECK_DEADLOCK FALSE
'''


LAW_FAMILIES = {
    'rescale_q': dict(law='rescale', dayset=3, sell=(0, 1), splits=(1, 3), timings=BOTH),
    'rescale_t': dict(law='rescale', dayset=3, timings=BOTH),
    'rescale5_t': dict(law='rescale', dayset=1, splits=(1, 2, 4), maxcells=5, timings=BOTH),
    'rescale_events_q': dict(law='rescale', dayset=3, buy=(0, 1, 2), sell=(0, 1), splits=(1,), timings=('"end"',), events=(1, 2), maxcells=4),
    'rescale_two_q': dict(law='rescale', secs='SecSeqAB', dayset=7, buy=(0, 2), sell=(0, 1), splits=(1, 3), timings=BOTH),
    'extend_events_q': dict(law='extend', dayset=9, buy=(0, 1, 2), sell=(0, 1), splits=(1,), prefix=3, events=(1, 2, 3), maxcells=4),
    'unsplit_q': dict(law='unsplit', dayset=1, splits=(1, 2), maxcells=4),
    'unsplit_t': dict(law='unsplit', dayset=8, splits=(1, 2, 4), maxcells=4),
    'extend_q': dict(law='extend', dayset=9, sell=(0, 1), splits=(1,), prefix=3),
    'extend_t': dict(law='extend', dayset=10, splits=(1, 3), prefix=3, maxcells=5),
    'project_q': dict(law='project', secs='SecSeqAB', dayset=7, sell=(0, 1)),
    'project_t': dict(law='project', secs='SecSeqAB', dayset=5, buy=(0, 1, 2), sell=(0, 1), maxcells=3),
}


def law_family(name):
    key = 'law_' + name
    if key in _family_cache:
        return _family_cache[key]
    cfg = write_cfg('MC_CgtLaw_' + name, law_cfg(**LAW_FAMILIES[name]))
    m = tlc('MC_CgtLaw', cfg, workers=8, timeout=3000)
    log(f'[tlc] MC_CgtLaw/{name}: {m["states"]} distinct states, {m["transitions"]} transitions, depth {m["depth"]}'
        f' ({"cached" if m["cached"] else str(m["wall_s"]) + "s"})')
    wd = workdir('law_' + name)
    out = os.path.join(wd, 'findings.ndjson')
    s = harness('replay_law', ['--in', m['out'], '--out', out])
    r = {'name': key, 'tlc': m, 'summary': s, 'findings': read_ndjson(out), 'obs': None}
    log(f'[replay] MC_CgtLaw/{name}: {s["records"]} pairs, {s["counters"].get("executions", 0)} executions, '
        f'{s["findings"]} deviations')
    _family_cache[key] = r
    return r


# --------------------------------------------------------------------------------------------
# MC_Report families (C04, C07) and the calendar model (C07)

def report_cfg(base=(2024, 3, 6), secs='SecSeqAB', dayset=1, buy=(0, 2), sell=(0, 1), maxcells=3, divdays=(1, 4, 5),
               exempt_years=(2021, 2022, 2023, 2024, 2025), exempt_amt=5):
    return f'''SPECIFICATION MCSpec
CONSTANTS
  SecSeq <- {secs}
  N <- MC_N
  DayNo <- MC_DayNo
  Timings = {{"end"}}
  DaySet = {dayset}
  BuyQs = {set_(buy)}
  SellQs = {set_(sell)}
  QDen = 1
  SplitKinds = {{}}
  MaxSplits = 0
  EventKinds = {{}}
  MaxEvents = 0
  DistGrid = 1
  MaxCells = {maxcells}
  CheapDay = 0
  CoveredOnly = FALSE
  Emit = TRUE
  BaseY = {base[0]}
  BaseM = {base[1]}
  BaseD = {base[2]}
  DivDays = {set_(divdays)}
  ExemptYears = {set_(exempt_years)}
  ExemptAmt = {exempt_amt}
INVARIANTS
  ClaimsWithinBought LegsSumToSold FailIffUncovered CostConservedAtEnd ReportIdentities EmitReport
CHECK_DEADLOCK FALSE
'''


REPORT_FAMILIES = {
    # day slots 0,1,2,30,31 from 6 March: slot 4 is 5 April, slot 5 is 6 April; 2023/24 contains 29 Feb 2024
    'report_q': dict(base=(2024, 3, 6), maxcells=3),
    'report_missing_q': dict(base=(2024, 3, 6), maxcells=2, exempt_years=(2021, 2022, 2023, 2025)),
    'report_t': dict(base=(2023, 3, 6), maxcells=4),
    'report_one_t': dict(base=(2020, 3, 6), secs='SecSeqA', buy=(0, 1, 2), sell=(0, 1, 2), maxcells=0,
                         exempt_years=(2018, 2019, 2020, 2021)),
}


def report_family(name):
    key = 'report_' + name
    if key in _family_cache:
        return _family_cache[key]
    cfg = write_cfg('MC_Report_' + name, report_cfg(**REPORT_FAMILIES[name]))
    m = tlc('MC_Report', cfg, workers=8, timeout=3000)
    log(f'[tlc] MC_Report/{name}: {m["states"]} distinct states, {m["transitions"]} transitions, depth {m["depth"]}'
        f' ({"cached" if m["cached"] else str(m["wall_s"]) + "s"})')
    wd = workdir('report_' + name)
    out = os.path.join(wd, 'findings.ndjson')
    s = harness('replay_report', ['--in', m['out'], '--out', out])
    r = {'name': key, 'tlc': m, 'summary': s, 'findings': read_ndjson(out), 'obs': None}
    log(f'[replay] MC_Report/{name}: {s["records"]} behaviours, {s["counters"].get("executions", 0)} executions, '
        f'{s["findings"]} deviations')
    _family_cache[key] = r
    return r


def calendar_family():
    key = 'calendar'
    if key in _family_cache:
        return _family_cache[key]
    m = tlc('MC_Calendar', os.path.join('cfg', 'MC_Calendar.cfg'), workers=8, timeout=3000)
    log(f'[tlc] MC_Calendar: {m["states"]} distinct states ({"cached" if m["cached"] else str(m["wall_s"]) + "s"})')
    wd = workdir('calendar')
    out = os.path.join(wd, 'findings.ndjson')
    s = harness('replay_calendar', ['--in', m['out'], '--out', out])
    r = {'name': key, 'tlc': m, 'summary': s, 'findings': read_ndjson(out), 'obs': None}
    log(f'[replay] MC_Calendar: {s["records"]} dates, {s["counters"].get("executions", 0)} executions, {s["findings"]} deviations')
    _family_cache[key] = r
    return r


# --------------------------------------------------------------------------------------------
# MC_Fx (C08)

def fx_family(tier):
    key = 'fx_' + tier
    if key in _family_cache:
        return _family_cache[key]
    m = tlc('MC_Fx', os.path.join('cfg', 'MC_Fx.cfg'), workers=8, timeout=3000)
    log(f'[tlc] MC_Fx: {m["states"]} distinct states, {m["transitions"]} transitions ({"cached" if m["cached"] else str(m["wall_s"]) + "s"})')
    common.build_cli()
    wd = workdir('fx')
    out = os.path.join(wd, 'findings.ndjson')
    s = harness('replay_fx', ['--in', m['out'], '--out', out, '--rates', os.path.join(common.REPO, 'crates/cgt-money/resources/rates'),
                              '--cli', common.CGT_TOOL, '--cli-sample', '25' if tier == 'quick' else '400'])
    s['counters']['executions'] = s['counters'].get('executions', 0) + s['counters'].get('cli_runs', 0)
    r = {'name': key, 'tlc': m, 'summary': s, 'findings': read_ndjson(out), 'obs': None}
    log(f'[replay] MC_Fx: {s["records"]} behaviours, {s["counters"].get("executions", 0)} executions '
        f'({s["counters"].get("cli_runs", 0)} through cgt-tool), {s["findings"]} deviations')
    _family_cache[key] = r
    return r


# --------------------------------------------------------------------------------------------
# MC_Dsl (C13, C14)

def dsl_cfg(mode, depth):
    return f'''SPECIFICATION Spec
CONSTANTS
  Mode = "{mode}"
  StyleDepth = {depth}
INVARIANTS SpellingMeansTx WriterRoundTrips Emit
CHECK_DEADLOCK FALSE
'''


def dsl_family(mode, depth=1):
    key = f'dsl_{mode}_{depth}'
    if key in _family_cache:
        return _family_cache[key]
    cfg = write_cfg(f'MC_Dsl_{mode}_{depth}', dsl_cfg(mode, depth))
    m = tlc('MC_Dsl', cfg, workers=8, timeout=3000)
    log(f'[tlc] MC_Dsl/{mode}/{depth}: {m["states"]} distinct states ({"cached" if m["cached"] else str(m["wall_s"]) + "s"})')
    wd = workdir(key)
    out = os.path.join(wd, 'findings.ndjson')
    s = harness('replay_dsl', ['--in', m['out'], '--out', out])
    r = {'name': key, 'tlc': m, 'summary': s, 'findings': read_ndjson(out), 'obs': None}
    log(f'[replay] MC_Dsl/{mode}/{depth}: {s["records"]} cases, {s["counters"].get("executions", 0)} executions, {s["findings"]} deviations')
    _family_cache[key] = r
    return r


# --------------------------------------------------------------------------------------------
# MC_Misc: validator rule and hostile-magnitude totality (C15)

def misc_family():
    key = 'misc'
    if key in _family_cache:
        return _family_cache[key]
    m = tlc('MC_Misc', os.path.join('cfg', 'MC_Misc.cfg'), workers=4, timeout=600)
    m['states'] = max(m['states'], 1)
    m['transitions'] = max(m['transitions'], 1)
    wd = workdir(key)
    out = os.path.join(wd, 'findings.ndjson')
    s = harness('replay_misc', ['--in', m['out'], '--out', out])
    r = {'name': key, 'tlc': m, 'summary': s, 'findings': read_ndjson(out), 'obs': None}
    log(f'[replay] MC_Misc: {s["counters"].get("validator_cases", 0)} validator classes, {s["counters"].get("hostile_cases", 0)} hostile ledgers, {s["findings"]} deviations')
    _family_cache[key] = r
    return r


# --------------------------------------------------------------------------------------------
# MC_Format (C17)

def format_family(tier):
    key = 'format_' + tier
    if key in _family_cache:
        return _family_cache[key]
    cfgname = 'MC_Format_sparse.cfg' if tier == 'quick' else 'MC_Format_dense.cfg'
    m = tlc('MC_Format', os.path.join('cfg', cfgname), workers=4, timeout=900)
    m['states'] = max(m['states'], 1)
    m['transitions'] = max(m['transitions'], 1)
    wd = workdir(key)
    out = os.path.join(wd, 'findings.ndjson')
    s = harness('replay_format', ['--in', m['out'], '--out', out, '--pdf-every', '1'])
    r = {'name': key, 'tlc': m, 'summary': s, 'findings': read_ndjson(out), 'obs': None}
    log(f'[replay] MC_Format: {s["counters"].get("values", 0)} values ({s["counters"].get("pdf_values", 0)} through the PDF), '
        f'{s["counters"].get("labels", 0)} labels, {s["counters"].get("echoes", 0)} transaction/event echoes '
        f'({s["counters"].get("mixed_currency_echoes", 0)} with fee and price in different currencies), {s["findings"]} deviations')
    _family_cache[key] = r
    return r


# --------------------------------------------------------------------------------------------
# MC_Schwab (C18), MC_Awards (C19)

def _conv_family(module, tier, what):
    key = f'{module}_{tier}'
    if key in _family_cache:
        return _family_cache[key]
    cfgname = f'{module}_{"q" if tier == "quick" else "t"}.cfg'
    m = tlc(module, os.path.join('cfg', cfgname), workers=8, timeout=3000)
    m['states'] = max(m['states'], 1)
    m['transitions'] = max(m['transitions'], 1)
    log(f'[tlc] {module}/{tier}: {m["states"]} distinct states ({"cached" if m["cached"] else str(m["wall_s"]) + "s"})')
    wd = workdir(key)
    out = os.path.join(wd, 'findings.ndjson')
    s = harness('replay_schwab', ['--in', m['out'], '--out', out])
    r = {'name': key, 'tlc': m, 'summary': s, 'findings': read_ndjson(out), 'obs': None}
    log(f'[replay] {module}/{tier}: {s["records"]} {what}, {s["counters"].get("executions", 0)} conversions, {s["findings"]} deviations')
    _family_cache[key] = r
    return r


def schwab_family(tier):
    return _conv_family('MC_Schwab', tier, 'exports')


def awards_family(tier):
    return _conv_family('MC_Awards', tier, 'awards files')


# --------------------------------------------------------------------------------------------
# P2: traces of the real matcher (verif hooks) validated by TLC against Cgt.tla (CgtTrace.tla)

def _trace_run(name, ledgers, seed, corrupt='none'):
    wd = workdir('cgttrace')
    tpath = os.path.join(wd, f'trace_{name}.ndjson')
    s = harness('record_cgt', ['--out', tpath, '--ledgers', str(ledgers), '--seed', str(seed), '--corrupt', corrupt])
    m = tlc('CgtTrace', os.path.join('cfg', 'CgtTrace.cfg'), workers=1, timeout=2400, env={'TRACE': tpath}, cache=False,
            jvm=['-Xss1g', '-Dtlc2.tool.queue.IStateQueue=StateDeque'], allow_fail=True)
    txt = open(m['out'], errors='replace').read()
    accepted = 'No error has been found' in txt and 'REJECTED_AT' not in txt
    why = None
    if not accepted:
        for marker in ('REJECTED_AT', 'is violated', 'Error:'):
            hit = [l for l in txt.splitlines() if marker in l]
            if hit:
                i = txt.find(hit[0])
                why = txt[i:i + 700]
                break
    return s, m, accepted, why, tpath


def trace_family(tier, seed):
    key = f'cgttrace_{tier}_{seed}'
    if key in _family_cache:
        return _family_cache[key]
    ledgers = 60 if tier == 'quick' else 600
    s, m, accepted, why, tpath = _trace_run('main', ledgers, seed)
    log(f'[trace] CgtTrace: {s["counters"].get("projected_traces", 0)} per-security traces of {s["counters"].get("ledgers", 0)} ledgers, '
        f'{s["counters"].get("events", 0)} events, {m["states"]} states: {"accepted" if accepted else "REJECTED"} ({m["wall_s"]}s)')
    findings = []
    for p in s.get('panics', []):
        findings.append({'prop': 'C15', 'kind': 'panic', 'case': 0, 'detail': 'calculate panicked: ' + p[:200], 'input': p, 'data': {}})
    if not accepted:
        inv = why or ''
        prop = 'C01'
        for name, pr in (('TClaimsWithinBought', 'C02'), ('TLegsSumToSold', 'C02'), ('TPoolNonNeg', 'C02'), ('TCostConservedAtEnd', 'C03'),
                         ('TFailIffUncovered', 'C05'), ('THoldIsClosedForm', 'C05'), ('TNoNegativeCost', 'C11')):
            if name in inv:
                prop = pr
        # an event that the specification cannot take: attribute by the kind of event
        if 'REJECTED_AT' in inv:
            if '"Sell"' in inv or '"Fail"' in inv or '"Abort"' in inv:
                prop = 'C05'
            elif '"DayEnd"' in inv:
                prop = 'C02'
            elif '"Start"' in inv:
                prop = 'C11'
        for pr in sorted({prop, 'C01'}):
            findings.append({'prop': pr, 'kind': 'trace_rejected', 'case': 0, 'input': tpath, 'data': {'tlc': inv},
                             'detail': 'a recorded execution of the real matcher is not a behaviour of Cgt.tla: ' + ' '.join(inv.split())[:500]})
    # binding self-tests (thorough tier and first quick run): corrupt one field / drop one event -> must be rejected
    selftests = {}
    for c in (('leg', 'drop', 'pool') if tier == 'thorough' else ('leg',)):
        _, _, acc2, _, _ = _trace_run('selftest_' + c, 12, seed, corrupt=c)
        selftests[c] = not acc2
        if acc2:
            raise common.ToolError(f'CgtTrace does not bind: a trace corrupted by "{c}" was accepted')
    s['counters']['executions'] = s['counters'].get('ledgers', 0)
    r = {'name': key, 'tlc': m, 'summary': s, 'findings': findings, 'obs': None, 'selftests': selftests}
    _family_cache[key] = r
    return r
